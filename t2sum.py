#!/usr/bin/env python3
# dev helper: summarise /tmp/t2run.txt failures by family
import re,sys,collections
pat=sys.argv[1] if len(sys.argv)>1 else ''
c=collections.Counter(); ex={}
for l in open('/tmp/t2run.txt'):
    if not (l.startswith('FAILED') or l.startswith('UNKNOWN') or l.startswith('ERROR')): continue
    if pat and not re.search(pat,l): continue
    m=re.match(r'(\w+)\s+(?:Copy|GenSchema)([a-z]+)_(\S*?)(From|To)?(?:Terraform)?:? (?:#\d+ )?(.*)$',l.strip())
    if not m: c[l.strip()[:160]]+=1; continue
    st,fam,rest,d,msg=m.groups()
    ctx='embed' if 'embed' in rest else ('oneof' if 'oneof' in rest else 'plain')
    msg=re.sub(r'\(/tmp[^)]*\)','',msg); msg=re.sub(r'\bt\d+\b','tN',msg)
    k=(st,fam,ctx,d or 'Schema',msg[:150])
    c[k]+=1; ex.setdefault(k,rest)
for k,n in sorted(c.items(), key=lambda x:(str(x[0]))):
    print(n,k, ex.get(k,''))
