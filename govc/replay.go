package main

// Concrete replay of solver counterexamples on the compiled code (Tier 2: emitted functions).
//
// For a failed obligation the solver's model is turned, type-directed, into Go literals for the
// function's arguments (pre-state) and — for postconditions — for the results and the reachable
// post-state the model predicts. A generated test calls the REAL compiled function with the
// arguments and compares what it observes with the prediction. If they agree the counterexample is
// confirmed on the real code (the model already falsifies the clause on exactly these values);
// for panic obligations the test expects the panic.

import (
	"bufio"
	"encoding/json"
	"fmt"
	"go/types"
	"golang.org/x/tools/go/ssa"
	"io"
	"math"
	"os"
	"os/exec"
	"path/filepath"
	"regexp"
	"sort"
	"strconv"
	"strings"
	"time"
)

type z3Session struct {
	cmd *exec.Cmd
	in  io.WriteCloser
	out *bufio.Reader
}

func startSession(script string) (*z3Session, string, error) {
	cmd := exec.Command("z3-new", "-in", "-T:60")
	in, _ := cmd.StdinPipe()
	outp, _ := cmd.StdoutPipe()
	cmd.Stderr = io.Discard
	if err := cmd.Start(); err != nil {
		return nil, "", err
	}
	s := &z3Session{cmd: cmd, in: in, out: bufio.NewReaderSize(outp, 1<<20)}
	io.WriteString(in, "(set-option :model.completion true)\n")
	io.WriteString(in, script)
	ans, err := s.readSexp()
	return s, strings.TrimSpace(ans), err
}

func (s *z3Session) close() {
	io.WriteString(s.in, "(exit)\n")
	s.in.Close()
	done := make(chan struct{})
	go func() { s.cmd.Wait(); close(done) }()
	select {
	case <-done:
	case <-time.After(3 * time.Second):
		s.cmd.Process.Kill()
	}
}

// readSexp reads one atom or balanced s-expression from the solver.
func (s *z3Session) readSexp() (string, error) {
	var b strings.Builder
	depth := 0
	inStr := false
	started := false
	for {
		c, err := s.out.ReadByte()
		if err != nil {
			return b.String(), err
		}
		if !started {
			if c == ' ' || c == '\n' || c == '\r' || c == '\t' {
				continue
			}
			started = true
		}
		b.WriteByte(c)
		if inStr {
			if c == '"' {
				// "" is an escaped quote: peek
				if nx, err := s.out.Peek(1); err == nil && nx[0] == '"' {
					s.out.ReadByte()
					b.WriteByte('"')
					continue
				}
				inStr = false
				if depth == 0 {
					return b.String(), nil
				}
			}
			continue
		}
		switch c {
		case '"':
			inStr = true
		case '(':
			depth++
		case ')':
			depth--
			if depth == 0 {
				return b.String(), nil
			}
		case '\n', ' ':
			if depth == 0 {
				return strings.TrimSpace(b.String()), nil
			}
		}
	}
}

func (s *z3Session) eval(term string) (string, error) {
	if _, err := io.WriteString(s.in, "(eval "+term+")\n"); err != nil {
		return "", err
	}
	r, err := s.readSexp()
	if strings.HasPrefix(r, "(error") {
		return "", fmt.Errorf("%s", r)
	}
	return r, err
}

type concretizer struct {
	path       string            // where in the argument we are, e.g. tf.AttrTypes[f].ElemType
	opaque     map[string]string // identity of an opaque interface value -> Go expression chosen for it
	hints      map[string]string // path suffix -> Go expression for attr.Type values the model leaves opaque
	helpers    []string
	helperSeen map[string]bool
	fail       string   // why the last conc failed
	shrink     []string // extra constraints that would make the model smaller
	vc         *VC
	s          *z3Session
	imports    map[string]string // path -> name
	approx     []string
	keys       []string // candidate map keys (SMT string terms)
	pkg        *types.Package
}

func (c *concretizer) typeStr(t types.Type) string {
	return types.TypeString(t, func(p *types.Package) string {
		if p == c.pkg {
			return ""
		}
		c.imports[p.Path()] = p.Name()
		return p.Name()
	})
}

func (c *concretizer) evalInt(term string) (int64, bool) {
	r, err := c.s.eval(term)
	if err != nil {
		return 0, false
	}
	r = strings.TrimSpace(r)
	neg := false
	if strings.HasPrefix(r, "(-") {
		neg = true
		r = strings.TrimSpace(strings.TrimSuffix(strings.TrimPrefix(r, "(-"), ")"))
	}
	n, err := strconv.ParseInt(r, 10, 64)
	if err != nil {
		// may be a big unsigned value
		u, err2 := strconv.ParseUint(r, 10, 64)
		if err2 != nil {
			return 0, false
		}
		return int64(u), true
	}
	if neg {
		n = -n
	}
	return n, true
}

func (c *concretizer) evalBool(term string) (bool, bool) {
	r, err := c.s.eval(term)
	if err != nil {
		return false, false
	}
	return strings.TrimSpace(r) == "true", true
}

var uEsc = regexp.MustCompile(`\\u\{([0-9a-fA-F]+)\}`)

func smtUnquote(r string) (string, bool) {
	r = strings.TrimSpace(r)
	if len(r) < 2 || r[0] != '"' {
		return "", false
	}
	body := r[1 : len(r)-1]
	body = strings.ReplaceAll(body, `""`, `"`)
	body = uEsc.ReplaceAllStringFunc(body, func(m string) string {
		h := uEsc.FindStringSubmatch(m)[1]
		n, _ := strconv.ParseUint(h, 16, 32)
		if n < 256 {
			return string([]byte{byte(n)})
		}
		return string(rune(n))
	})
	return body, true
}

func (c *concretizer) evalString(term string) (string, bool) {
	r, err := c.s.eval(term)
	if err != nil {
		return "", false
	}
	return smtUnquote(r)
}

func (c *concretizer) evalFloat(term string, bits int) (string, bool) {
	r, err := c.s.eval(term)
	if err != nil {
		return "", false
	}
	r = strings.TrimSpace(r)
	eb, sb := 11, 52
	if bits == 32 {
		eb, sb = 8, 23
	}
	var u uint64
	switch {
	case strings.HasPrefix(r, "(_ +zero"):
		u = 0
	case strings.HasPrefix(r, "(_ -zero"):
		u = 1 << uint(eb+sb)
	case strings.HasPrefix(r, "(_ +oo"):
		u = ((1 << uint(eb)) - 1) << uint(sb)
	case strings.HasPrefix(r, "(_ -oo"):
		u = (1 << uint(eb+sb)) | ((1<<uint(eb))-1)<<uint(sb)
	case strings.HasPrefix(r, "(_ NaN"):
		u = ((1<<uint(eb))-1)<<uint(sb) | 1
	case strings.HasPrefix(r, "(fp "):
		parts := strings.Fields(strings.TrimSuffix(strings.TrimPrefix(r, "(fp "), ")"))
		if len(parts) != 3 {
			return "", false
		}
		parse := func(p string) (uint64, bool) {
			if strings.HasPrefix(p, "#b") {
				n, err := strconv.ParseUint(p[2:], 2, 64)
				return n, err == nil
			}
			if strings.HasPrefix(p, "#x") {
				n, err := strconv.ParseUint(p[2:], 16, 64)
				return n, err == nil
			}
			return 0, false
		}
		sg, ok1 := parse(parts[0])
		ex, ok2 := parse(parts[1])
		si, ok3 := parse(parts[2])
		if !ok1 || !ok2 || !ok3 {
			return "", false
		}
		u = sg<<uint(eb+sb) | ex<<uint(sb) | si
	default:
		return "", false
	}
	if bits == 32 {
		c.imports["math"] = "math"
		return fmt.Sprintf("math.Float32frombits(0x%x)", uint32(u)), true
	}
	c.imports["math"] = "math"
	_ = math.Pi
	return fmt.Sprintf("math.Float64frombits(0x%x)", u), true
}

var primitiveNames = []string{"StringType", "NumberType", "BoolType", "Int64Type", "Float64Type"}

// conc turns the SMT term `term` of Go type t into a Go expression, reading memory from heap.
func (c *concretizer) conc(term string, t types.Type, heap Heap, depth int) (string, bool) {
	vc := c.vc
	if depth > 7 {
		c.fail = "nesting too deep at " + c.typeStr(t)
		return "", false
	}
	if isDiagnostics(t) {
		return "nil", true
	}
	ts := c.typeStr(t)
	switch u := t.Underlying().(type) {
	case *types.Basic:
		switch {
		case u.Info()&types.IsBoolean != 0:
			b, ok := c.evalBool(term)
			return fmt.Sprintf("%s(%v)", ts, b), ok
		case u.Info()&types.IsInteger != 0:
			if u.Kind() == types.Uint64 || u.Kind() == types.Uint || u.Kind() == types.Uintptr {
				r, err := c.s.eval(term)
				if err != nil {
					return "", false
				}
				return fmt.Sprintf("%s(%s)", ts, strings.TrimSpace(r)), true
			}
			n, ok := c.evalInt(term)
			return fmt.Sprintf("%s(%d)", ts, n), ok
		case u.Kind() == types.Float32:
			f, ok := c.evalFloat(term, 32)
			return fmt.Sprintf("%s(%s)", ts, f), ok
		case u.Kind() == types.Float64:
			f, ok := c.evalFloat(term, 64)
			return fmt.Sprintf("%s(%s)", ts, f), ok
		case u.Info()&types.IsString != 0:
			s, ok := c.evalString(term)
			return fmt.Sprintf("%s(%s)", ts, strconv.Quote(s)), ok
		}
		c.fail = "basic type " + ts
		return "", false
	case *types.Pointer:
		ref, ok := c.evalInt(term)
		if !ok {
			return "", false
		}
		if ref == 0 {
			return "nil", true
		}
		el := u.Elem()
		if _, isStruct := el.Underlying().(*types.Struct); isStruct {
			inner, ok := c.conc(fmt.Sprintf("(select %s %s)", vc.heapGet(heap, vc.cellKey(el)), term), el, heap, depth+1)
			return "&" + inner, ok
		}
		inner, ok := c.conc(fmt.Sprintf("(select %s %s)", vc.heapGet(heap, vc.cellKey(el)), term), el, heap, depth+1)
		if !ok {
			return "", false
		}
		return fmt.Sprintf("func() *%s { x := %s; return &x }()", c.typeStr(el), inner), true
	case *types.Struct:
		var fs []string
		for i := 0; i < u.NumFields(); i++ {
			f := u.Field(i)
			if !f.Exported() && f.Pkg() != c.pkg {
				c.approx = append(c.approx, ts+"."+f.Name()+" (unexported, left zero)")
				continue
			}
			name := f.Name()
			saved := c.path
			c.path += "." + name
			fv, ok := c.conc(vc.S.proj(t, term, i), f.Type(), heap, depth+1)
			c.path = saved
			if !ok {
				return "", false
			}
			fs = append(fs, name+": "+fv)
		}
		return ts + "{" + strings.Join(fs, ", ") + "}", true
	case *types.Slice:
		if isByteSlice(t) {
			isnil, ok := c.evalBool("(bnil " + term + ")")
			if !ok {
				return "", false
			}
			if isnil {
				return ts + "(nil)", true
			}
			s, ok := c.evalString("(bstr " + term + ")")
			return fmt.Sprintf("%s(%s)", ts, strconv.Quote(s)), ok
		}
		n, ok := c.evalInt("(slen " + term + ")")
		if !ok || n < 0 {
			c.fail = "length of " + term
			return "", false
		}
		if n > 4 {
			c.fail = "slice too long"
			c.shrink = append(c.shrink, "(<= (slen "+term+") 2)")
			return "", false
		}
		arr, ok := c.evalInt("(sarr " + term + ")")
		if !ok {
			return "", false
		}
		if arr == 0 {
			return ts + "(nil)", true
		}
		var els []string
		for i := int64(0); i < n; i++ {
			ev, ok := c.conc(fmt.Sprintf("(select (select %s (sarr %s)) %d)", vc.heapGet(heap, vc.elemKey(u.Elem())), term, i), u.Elem(), heap, depth+1)
			if !ok {
				return "", false
			}
			els = append(els, ev)
		}
		return ts + "{" + strings.Join(els, ", ") + "}", true
	case *types.Map:
		ref, ok := c.evalInt(term)
		if !ok {
			return "", false
		}
		if ref == 0 {
			return ts + "(nil)", true
		}
		d, v := vc.mapKeysOf(u)
		seen := map[string]bool{}
		var ents []string
		for _, kt := range c.keys {
			ks, ok := c.evalString(kt)
			if !ok || seen[ks] {
				continue
			}
			seen[ks] = true
			lit := smtString(ks)
			in, ok := c.evalBool(fmt.Sprintf("(select (select %s %s) %s)", vc.heapGet(heap, d), term, lit))
			if !ok || !in {
				continue
			}
			saved := c.path
			c.path += "[" + ks + "]"
			ev, ok := c.conc(fmt.Sprintf("(select (select %s %s) %s)", vc.heapGet(heap, v), term, lit), u.Elem(), heap, depth+1)
			c.path = saved
			if !ok {
				return "", false
			}
			ents = append(ents, strconv.Quote(ks)+": "+ev)
		}
		sort.Strings(ents)
		return ts + "{" + strings.Join(ents, ", ") + "}", true
	case *types.Interface:
		tag, ok := c.evalInt("(itag " + term + ")")
		if !ok {
			return "", false
		}
		if tag == 0 {
			return "nil", true
		}
		if tag >= 1 && int(tag) <= len(vc.S.tagNames) {
			key := vc.S.tagNames[tag-1]
			dt := c.typeByKey(key)
			if dt != nil && depth > 4 {
				dt = nil // deep inside the value: irrelevant to the obligation in all shapes; use an opaque value
			}
			if dt != nil {
				if it, ok := u.Underlying().(*types.Interface); ok && !types.Implements(dt, it) && !types.Implements(types.NewPointer(dt), it) {
					dt = nil // the model chose a dynamic type that cannot inhabit this interface
				}
			}
			if dt != nil {
				if strings.HasSuffix(key, "/types.primitive") {
					n, ok := c.evalInt(fmt.Sprintf("(%s (iid %s))", vc.S.unboxFn(dt), term))
					if ok && n >= 0 && int(n) < len(primitiveNames) {
						c.imports["github.com/hashicorp/terraform-plugin-framework/types"] = "types"
						return "types." + primitiveNames[n], true
					}
					return "", false
				}
				return c.conc(fmt.Sprintf("(%s (iid %s))", vc.S.unboxFn(dt), term), dt, heap, depth+1)
			}
		}
		// a dynamic type the code never mentions: the same opaque value always becomes the same Go value
		id, _ := c.evalInt("(iid " + term + ")")
		okey := fmt.Sprintf("%d:%d", tag, id)
		if h, ok := c.opaque[okey]; ok {
			return h, true
		}
		// for attribute types the shape's own schema type is the intended inhabitant (the
		// preconditions speak about its null value)
		if i := strings.Index(c.path, "AttrTypes"); i >= 0 {
			if h, ok := c.hints[c.path[i+len("AttrTypes"):]]; ok {
				c.opaque[okey] = h
				for _, imp := range [][2]string{{"types.", "github.com/hashicorp/terraform-plugin-framework/types"}} {
					if strings.Contains(h, imp[0]) {
						c.imports[imp[1]] = "types"
					}
				}
				return h, true
			}
		}
		if ts == "error" {
			c.imports["errors"] = "errors"
			return `errors.New("e")`, true
		}
		if it, ok := u.Underlying().(*types.Interface); ok {
			if named, isNamed := t.(*types.Named); isNamed && named.Obj().Pkg() == c.pkg && it.NumMethods() > 0 {
				// an interface of the package under test (a oneof holder): declare a fresh implementing type
				simple := true
				for i := 0; i < it.NumMethods(); i++ {
					sg := it.Method(i).Type().(*types.Signature)
					if sg.Params().Len() != 0 || sg.Results().Len() != 0 {
						simple = false
					}
				}
				if simple {
					name := "replayOther_" + named.Obj().Name()
					if !c.helperSeen[name] {
						c.helperSeen[name] = true
						d := "type " + name + " struct{}\n"
						for i := 0; i < it.NumMethods(); i++ {
							d += fmt.Sprintf("func (*%s) %s() {}\n", name, it.Method(i).Name())
						}
						c.helpers = append(c.helpers, d)
					}
					return "&" + name + "{}", true
				}
			}
		}
		return "struct{ " + ts + " }{}", true
	case *types.Signature:
		return "nil", true
	}
	c.fail = "unsupported type " + ts
	return "", false
}

func (c *concretizer) typeByKey(key string) types.Type {
	return c.vc.S.tagTypes[key]
}

// ReplayResult is what the replay of one obligation produced.
type ReplayResult struct {
	Attempted bool     `json:"attempted"`
	Confirmed bool     `json:"confirmed"`
	Note      string   `json:"note,omitempty"`
	Test      string   `json:"test,omitempty"`
	Output    string   `json:"output,omitempty"`
	Approx    []string `json:"approximations,omitempty"`
}

var nameRe = regexp.MustCompile(`[^A-Za-z0-9_]`)

// replay runs the counterexample of obligation o of vc on the compiled package in pkgDir.
func (e *Engine) replay(vc *VC, o *Obligation, pkgDir string) *ReplayResult {
	rr := &ReplayResult{}
	fn := e.funcs[vc.fnKey]
	if fn == nil || o.ExpectFail {
		return rr
	}
	panicky := map[string]bool{"nil-deref": true, "bounds": true, "nil-map": true, "type-assert": true, "panic": true}
	if o.Kind != "post" && !panicky[o.Kind] {
		rr.Note = "obligations of kind " + o.Kind + " are statements about intermediate states; no input/output replay"
		return rr
	}
	rr.Attempted = true
	var extra []string
	for attempt := 0; attempt < 6; attempt++ {
		res := e.replayOnce(vc, o, fn, pkgDir, extra, panicky[o.Kind], rr)
		if res == nil {
			return rr
		}
		extra = append(extra, res...)
	}
	rr.Note = "no small enough model found"
	return rr
}

// replayOnce returns nil when done (rr filled in) or extra constraints to retry with.
func (e *Engine) replayOnce(vc *VC, o *Obligation, fn *ssa.Function, pkgDir string, extra []string, isPanic bool, rr *ReplayResult) []string {
	q := vc.query(o)
	q = strings.TrimSuffix(strings.TrimSpace(q), "(check-sat)")
	for _, x := range extra {
		q += "(assert " + x + ")\n"
	}
	q += "(check-sat)\n"
	s, ans, err := startSession(q)
	if err != nil || ans != "sat" {
		rr.Note = "solver did not reproduce a (small) model (" + ans + ")"
		if s != nil {
			s.close()
		}
		return nil
	}
	defer s.close()
	panicky := map[string]bool{o.Kind: isPanic}
	c := &concretizer{vc: vc, s: s, imports: map[string]string{"testing": "testing", "reflect": "reflect", "fmt": "fmt", "context": "context"}, pkg: fn.Pkg.Pkg, helperSeen: map[string]bool{}, hints: e.replayHints[vc.fnKey], opaque: map[string]string{}}
	for _, lit := range []string{"f", "g", "s", "x", "active", "id"} {
		c.keys = append(c.keys, smtString(lit))
	}
	c.keys = append(c.keys, vc.ghostByKey["String"]...)
	c.keys = append(c.keys, vc.keyConsts...)
	var args, decls []string
	type chk struct{ name, want string }
	var checks []chk
	for _, p := range fn.Params {
		v := vc.params[p.Name()]
		name := p.Name()
		if name == "_" || strings.Contains(typeKey(p.Type()), "context.Context") {
			args = append(args, "context.Background()")
			continue
		}
		term, ok := vc.firstClass(v)
		if !ok {
			rr.Note = "argument " + name + " is not a first-class value"
			return nil
		}
		ge, ok := c.conc(term, p.Type(), vc.entryHeap, 0)
		if !ok {
			if len(c.shrink) > 0 {
				return c.shrink
			}
			rr.Note = "the model's value of " + name + " could not be turned into a Go literal: " + c.fail
			return nil
		}
		decls = append(decls, fmt.Sprintf("\t%s := %s", name, ge))
		args = append(args, name)
		if o.Kind == "post" && o.retHeap != nil {
			if _, isPtr := p.Type().Underlying().(*types.Pointer); isPtr {
				we, ok := c.conc(term, p.Type(), o.retHeap, 0)
				if ok {
					checks = append(checks, chk{name, we})
				}
			}
		}
	}
	var res []string
	sig := fn.Signature
	for i := 0; i < sig.Results().Len(); i++ {
		res = append(res, fmt.Sprintf("r%d", i))
	}
	var b strings.Builder
	testName := "TestReplay_" + nameRe.ReplaceAllString(vc.fnKey, "_") + fmt.Sprintf("_%d", o.ID)
	fmt.Fprintf(&b, "func %s(tT *testing.T) {\n%s\n", testName, strings.Join(decls, "\n"))
	call := fmt.Sprintf("%s(%s)", fn.Name(), strings.Join(args, ", "))
	if fn.Signature.Recv() != nil && len(args) > 0 {
		call = fmt.Sprintf("%s.%s(%s)", args[0], fn.Name(), strings.Join(args[1:], ", "))
	}
	if panicky[o.Kind] {
		fmt.Fprintf(&b, "\tdefer func() {\n\t\tif r := recover(); r != nil {\n\t\t\tfmt.Println(\"REPLAY-CONFIRMED: the real code panics:\", r)\n\t\t\treturn\n\t\t}\n\t\ttT.Fatalf(\"REPLAY-MISMATCH: the verifier predicts a panic, the real code returned normally\")\n\t}()\n")
		if len(res) > 0 {
			fmt.Fprintf(&b, "\t%s := %s\n", strings.Join(res, ", "), call)
			for _, rn := range res {
				fmt.Fprintf(&b, "\t_ = %s\n", rn)
			}
		} else {
			fmt.Fprintf(&b, "\t%s\n", call)
		}
	} else {
		if len(res) > 0 {
			fmt.Fprintf(&b, "\t%s := %s\n", strings.Join(res, ", "), call)
		} else {
			fmt.Fprintf(&b, "\t%s\n", call)
		}
		fmt.Fprintf(&b, "\tok := true\n")
		for i := 0; i < sig.Results().Len() && i < len(o.retVals); i++ {
			rt := sig.Results().At(i).Type()
			if isDiagnostics(rt) {
				n, okn := c.evalInt("(dn " + o.retVals[i].T + ")")
				if okn {
					fmt.Fprintf(&b, "\tif len(r%d) != %d {\n\t\tok = false\n\t\ttT.Logf(\"result %d: the model predicts %d diagnostics, the real code returned %%d: %%v\", len(r%d), r%d)\n\t}\n", i, n, i, n, i, i)
				}
				continue
			}
			term, okf := vc.firstClass(o.retVals[i])
			if !okf {
				continue
			}
			we, okc := c.conc(term, rt, o.retHeap, 0)
			if okc {
				fmt.Fprintf(&b, "\t{\n\t\twant := %s\n\t\tif !reflect.DeepEqual(r%d, want) {\n\t\t\tok = false\n\t\t\ttT.Logf(\"result %d: model %%#v, real code %%#v\", want, r%d)\n\t\t}\n\t}\n", we, i, i, i)
			}
		}
		for _, ck := range checks {
			fmt.Fprintf(&b, "\t{\n\t\twant := %s\n\t\tif !reflect.DeepEqual(%s, want) {\n\t\t\tok = false\n\t\t\ttT.Logf(\"%s after the call: model %%#v, real code %%#v\", want, %s)\n\t\t}\n\t}\n", ck.want, ck.name, ck.name, ck.name)
		}
		fmt.Fprintf(&b, "\tif !ok {\n\t\ttT.Fatalf(\"REPLAY-MISMATCH: the real code does not behave as the verifier's model predicts\")\n\t}\n\tfmt.Println(\"REPLAY-CONFIRMED: on this input the real code produces exactly the state the model predicts, which violates the clause\")\n}\n")
	}
	if panicky[o.Kind] {
		b.WriteString("}\n")
	}
	var imp []string
	for p, n := range c.imports {
		imp = append(imp, fmt.Sprintf("\t%s %q", n, p))
	}
	sort.Strings(imp)
	file := "package " + fn.Pkg.Pkg.Name() + "\n\nimport (\n" + strings.Join(imp, "\n") + "\n)\n\nvar _ = reflect.DeepEqual\nvar _ = fmt.Sprint\nvar _ = context.Background\n\n" + strings.Join(c.helpers, "\n") + "\n" + b.String()
	rr.Test = file
	rr.Approx = c.approx
	// the test is injected with -overlay: nothing is written into the package directory
	tmp, err := os.MkdirTemp("", "govc-replay-")
	if err != nil {
		rr.Note = err.Error()
		return nil
	}
	defer os.RemoveAll(tmp)
	base := "zz_replay_" + nameRe.ReplaceAllString(vc.fnKey, "_") + fmt.Sprintf("_%d_test.go", o.ID)
	real := filepath.Join(tmp, base)
	if err := os.WriteFile(real, []byte(file), 0o644); err != nil {
		rr.Note = err.Error()
		return nil
	}
	absPkg, _ := filepath.Abs(pkgDir)
	ov, _ := json.Marshal(map[string]map[string]string{"Replace": {filepath.Join(absPkg, base): real}})
	ovFile := filepath.Join(tmp, "overlay.json")
	_ = os.WriteFile(ovFile, ov, 0o644)
	cmd := exec.Command("go", "test", "-overlay", ovFile, "-v", "-vet=off", "-count=1", "-timeout", "60s", "-run", "^"+testName+"$", ".")
	cmd.Dir = pkgDir
	cmd.Env = append(os.Environ(), "GOFLAGS=-mod=mod", "GOPROXY=off", "GOSUMDB=off", "GOTOOLCHAIN=local")
	out, _ := cmd.CombinedOutput()
	rr.Output = string(out)
	if len(rr.Output) > 6000 {
		rr.Output = rr.Output[:6000]
	}
	rr.Confirmed = strings.Contains(rr.Output, "REPLAY-CONFIRMED")
	if !rr.Confirmed {
		rr.Note = "the real code did not reproduce the model's prediction (see output); the discrepancy is recorded, the violation is reported without a failing input"
	}
	return nil
}
