package main

import (
	"bytes"
	"context"
	"fmt"
	"os"
	"os/exec"
	"path/filepath"
	"strings"
	"sync"
	"sync/atomic"
	"time"
)

type Result struct {
	*Obligation
	Status  string        `json:"status"` // discharged | failed | unknown
	Solver  string        `json:"solver"`
	Seconds float64       `json:"seconds"`
	Answer  string        `json:"answer"`
	Model   string        `json:"model,omitempty"`
	Query   string        `json:"query_file,omitempty"`
	Replay  *ReplayResult `json:"replay,omitempty"`
}

func (vc *VC) query(o *Obligation) string {
	var b strings.Builder
	for _, d := range vc.S.decls {
		b.WriteString(d)
		b.WriteByte('\n')
	}
	for _, l := range vc.pre {
		b.WriteString(l)
		b.WriteByte('\n')
	}
	for _, l := range vc.lines[:o.Prefix] {
		b.WriteString(l)
		b.WriteByte('\n')
	}
	if o.Reach != "true" && o.Reach != "" {
		b.WriteString("(assert " + o.Reach + ")\n")
	}
	b.WriteString("(assert (not " + o.Goal + "))\n")
	b.WriteString("(check-sat)\n")
	return b.String()
}

type solverSpec struct {
	name   string
	argv   func(file string, timeoutS int) []string
	prefix string
}

var solvers = []solverSpec{
	{"z3-new", func(f string, t int) []string { return []string{"z3-new", fmt.Sprintf("-T:%d", t), f} }, ""},
	{"cvc5", func(f string, t int) []string {
		return []string{"cvc5", "--strings-exp", fmt.Sprintf("--tlimit=%d", t*1000), f}
	}, "(set-option :produce-models true)\n(set-logic ALL)\n"},
	{"z3", func(f string, t int) []string { return []string{"z3", fmt.Sprintf("-T:%d", t), f} }, ""},
}

func runSolver(s solverSpec, dir, name, q string, timeoutS int, wantModel bool, seed int) (string, string, float64) {
	file := filepath.Join(dir, name+"."+s.name+".smt2")
	text := s.prefix
	if seed != 0 && strings.HasPrefix(s.name, "z3") {
		text += fmt.Sprintf("(set-option :smt.random_seed %d)\n", seed%100000)
	}
	text += q
	if wantModel {
		text += "(get-model)\n"
	}
	if err := os.WriteFile(file, []byte(text), 0o644); err != nil {
		return "error", err.Error(), 0
	}
	ctx, cancel := context.WithTimeout(context.Background(), time.Duration(timeoutS+2)*time.Second)
	defer cancel()
	argv := s.argv(file, timeoutS)
	cmd := exec.CommandContext(ctx, argv[0], argv[1:]...)
	var out bytes.Buffer
	cmd.Stdout = &out
	cmd.Stderr = &out
	t0 := time.Now()
	_ = cmd.Run()
	el := time.Since(t0).Seconds()
	txt := out.String()
	first := strings.TrimSpace(strings.SplitN(txt, "\n", 2)[0])
	switch first {
	case "sat", "unsat", "unknown", "timeout":
	default:
		if strings.Contains(txt, "unsat") && !strings.Contains(txt, "error") {
			first = "unsat"
		} else if ctx.Err() != nil {
			first = "timeout"
		} else {
			first = "error"
		}
	}
	rest := ""
	if i := strings.Index(txt, "\n"); i >= 0 {
		rest = txt[i+1:]
	}
	if first == "error" {
		rest = txt
	}
	return first, rest, el
}

// incrementalScript: one solver session for all obligations of a function. The assertion
// stack grows monotonically; every obligation is a (push)(assert reach)(assert (not goal))(check-sat)(pop).
func (vc *VC) incrementalScript(timeoutMs int) string {
	var b strings.Builder
	fmt.Fprintf(&b, "(set-option :timeout %d)\n", timeoutMs)
	for _, d := range vc.S.decls {
		b.WriteString(d)
		b.WriteByte('\n')
	}
	for _, l := range vc.pre {
		b.WriteString(l)
		b.WriteByte('\n')
	}
	pos := 0
	for _, o := range vc.obls {
		for ; pos < o.Prefix && pos < len(vc.lines); pos++ {
			b.WriteString(vc.lines[pos])
			b.WriteByte('\n')
		}
		b.WriteString("(push 1)\n")
		if o.Reach != "true" && o.Reach != "" {
			b.WriteString("(assert " + o.Reach + ")\n")
		}
		b.WriteString("(assert (not " + o.Goal + "))\n(check-sat)\n(pop 1)\n")
	}
	return b.String()
}

func runIncremental(vc *VC, dir string, timeoutS int) ([]string, float64) {
	file := filepath.Join(dir, sanitize(vc.fnKey)+".inc.smt2")
	if err := os.WriteFile(file, []byte(vc.incrementalScript(timeoutS*1000)), 0o644); err != nil {
		return nil, 0
	}
	total := timeoutS*len(vc.obls) + 10
	if total > 900 {
		total = 900
	}
	ctx, cancel := context.WithTimeout(context.Background(), time.Duration(total)*time.Second)
	defer cancel()
	cmd := exec.CommandContext(ctx, "z3-new", file)
	var out bytes.Buffer
	cmd.Stdout = &out
	cmd.Stderr = &out
	t0 := time.Now()
	_ = cmd.Run()
	el := time.Since(t0).Seconds()
	var answers []string
	for _, l := range strings.Split(out.String(), "\n") {
		l = strings.TrimSpace(l)
		switch l {
		case "sat", "unsat", "unknown", "timeout":
			answers = append(answers, l)
		default:
			if strings.HasPrefix(l, "(error") {
				// an error poisons the session: fall back to individual queries for everything after
				return answers, el
			}
		}
	}
	return answers, el
}

// solveAll discharges obligations: one incremental z3 session per function first; every
// obligation it does not refute is re-run on its own, racing z3-new, cvc5 and z3 4.8.12.
func solveAll(vcs []*VC, dir string, workers, timeoutS, seed int, keepQueries bool) []*Result {
	type job struct {
		vc *VC
		o  *Obligation
		r  *Result
	}
	var results []*Result
	resOf := map[*Obligation]*Result{}
	for _, vc := range vcs {
		for _, o := range vc.obls {
			r := &Result{Obligation: o}
			results = append(results, r)
			resOf[o] = r
		}
	}
	// phase 1: incremental sessions
	var jobs []job
	var mu sync.Mutex
	{
		ch := make(chan *VC)
		var wg sync.WaitGroup
		for w := 0; w < workers; w++ {
			wg.Add(1)
			go func() {
				defer wg.Done()
				for vc := range ch {
					if len(vc.obls) == 0 {
						continue
					}
					answers, el := runIncremental(vc, dir, min(timeoutS, 5))
					per := el / float64(len(vc.obls))
					mu.Lock()
					for i, o := range vc.obls {
						r := resOf[o]
						ans := ""
						if i < len(answers) {
							ans = answers[i]
						}
						if ans == "unsat" && !o.ExpectFail {
							r.Status, r.Solver, r.Seconds, r.Answer = "discharged", "z3-new(incremental)", per, ans
							continue
						}
						if ans == "sat" && o.ExpectFail {
							r.Status, r.Solver, r.Seconds, r.Answer = "discharged", "z3-new(incremental)", per, ans
							continue
						}
						jobs = append(jobs, job{vc, o, r})
					}
					mu.Unlock()
				}
			}()
		}
		for _, vc := range vcs {
			ch <- vc
		}
		close(ch)
		wg.Wait()
	}
	// phase 2: individual queries for the rest
	var nmodels int32
	ch := make(chan job)
	var wg sync.WaitGroup
	for w := 0; w < workers; w++ {
		wg.Add(1)
		go func() {
			defer wg.Done()
			for j := range ch {
				q := j.vc.query(j.o)
				name := fmt.Sprintf("%s.%d", sanitize(j.o.Func), j.o.ID)
				type sr struct {
					ans, rest, name string
					el              float64
				}
				rc := make(chan sr, 3)
				for _, s := range solvers {
					s := s
					go func() {
						a, r, e := runSolver(s, dir, name, q, timeoutS, false, seed)
						rc <- sr{a, r, s.name, e}
					}()
				}
				ans, rest, solver, total := "unknown", "", "all", 0.0
				for i := 0; i < len(solvers); i++ {
					x := <-rc
					if x.el > total {
						total = x.el
					}
					if x.ans == "unsat" || x.ans == "sat" {
						ans, rest, solver = x.ans, x.rest, x.name
						break
					}
					ans, rest = x.ans, x.rest
				}
				j.r.Solver, j.r.Seconds, j.r.Answer = solver, total, ans
				switch {
				case ans == "unsat":
					j.r.Status = "discharged"
				case ans == "sat":
					j.r.Status = "failed"
					// models are asked for the first 24 refuted obligations only (a broken function fails many at once)
					if !j.o.ExpectFail && atomic.AddInt32(&nmodels, 1) <= 24 {
						for _, s := range solvers {
							if s.name == solver {
								_, m, _ := runSolver(s, dir, name+".model", q, timeoutS, true, seed)
								j.r.Model = m
							}
						}
					}
				default:
					j.r.Status = "unknown"
					j.r.Model = rest
				}
				if j.o.ExpectFail {
					// canaries: sat is the good answer; an undecided canary is not a proof of vacuity
					switch j.r.Status {
					case "failed":
						j.r.Status = "discharged"
					case "discharged":
						j.r.Status = "failed"
					case "unknown":
						j.r.Status = "discharged"
						j.r.Answer = "canary undecided (" + ans + ")"
					}
				}
				if keepQueries || j.r.Status != "discharged" {
					j.r.Query = filepath.Join(dir, name+".query.smt2")
					_ = os.WriteFile(j.r.Query, []byte(q), 0o644)
				}
			}
		}()
	}
	for _, j := range jobs {
		ch <- j
	}
	close(ch)
	wg.Wait()
	// phase 3: what is still undecided (typically: a timeout caused by the load of the parallel phases)
	// is tried once more, one obligation at a time, with three times the time limit. Canaries are
	// left alone (an undecided canary is not reported).
	retried := 0
	retryStart := time.Now()
	for _, j := range jobs {
		if j.r.Status != "unknown" || j.o.ExpectFail {
			continue
		}
		// bounded: when many obligations are undecided the cause is not load, and each retry is slow
		if retried >= 12 || time.Since(retryStart).Seconds() > float64(12*timeoutS) {
			break
		}
		retried++
		q := j.vc.query(j.o)
		name := fmt.Sprintf("%s.%d.retry", sanitize(j.o.Func), j.o.ID)
		for _, s := range solvers {
			a, rest, el := runSolver(s, dir, name, q, 3*timeoutS, false, seed)
			j.r.Seconds += el
			if a == "unsat" {
				j.r.Status, j.r.Solver, j.r.Answer = "discharged", s.name+"(retry)", a
				break
			}
			if a == "sat" {
				j.r.Status, j.r.Solver, j.r.Answer = "failed", s.name+"(retry)", a
				_, m, _ := runSolver(s, dir, name+".model", q, 3*timeoutS, true, seed)
				j.r.Model = m
				_ = rest
				break
			}
		}
	}
	// reachability probes: a return that cannot be reached is not a failure by itself (the precondition
	// may exclude it), but more unreachable returns than the contract allows (`unreachable N`) means
	// that part of the function is verified vacuously
	byFunc := map[string][]*Result{}
	var order []string
	for _, r := range results {
		if r.ReachProbe {
			if _, ok := byFunc[r.Func]; !ok {
				order = append(order, r.Func)
			}
			byFunc[r.Func] = append(byFunc[r.Func], r)
		}
	}
	for _, f := range order {
		var dead []string
		allow := 0
		for _, r := range byFunc[f] {
			allow = r.Allow
			if r.Status == "failed" {
				dead = append(dead, strings.TrimSuffix(strings.TrimPrefix(r.Name, "return "), " is reachable under the precondition")+"@"+r.Pos)
			}
		}
		for _, r := range byFunc[f] {
			if r.Status == "failed" {
				r.Answer = "unreachable"
				if len(dead) <= allow {
					r.Status = "discharged"
				} else {
					r.Name += fmt.Sprintf(" — %d returns are unreachable (%s), the contract allows %d: code behind them is verified vacuously", len(dead), strings.Join(dead, ", "), allow)
				}
			}
		}
	}
	return results
}

func sanitize(s string) string {
	var b strings.Builder
	for _, c := range s {
		if c >= 'a' && c <= 'z' || c >= 'A' && c <= 'Z' || c >= '0' && c <= '9' || c == '_' || c == '-' {
			b.WriteRune(c)
		} else {
			b.WriteByte('_')
		}
	}
	return b.String()
}
