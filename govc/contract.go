package main

// Parser for the //@ contract language (Gobra-style comment lines in a comment-only file).

import (
	"bufio"
	"fmt"
	"go/ast"
	"go/parser"
	"os"
	"regexp"
	"strconv"
	"strings"
)

type Clause struct {
	Kind  string // requires ensures invariant assume
	Loop  int    // loop ordinal for invariants
	Text  string
	Expr  ast.Expr
	Props []string
	File  string
	Line  int
}

func (c *Clause) Name() string {
	t := strings.Join(strings.Fields(c.Text), " ")
	if len(t) > 90 {
		t = t[:90] + "…"
	}
	return t
}

type Ghost struct {
	Name string
	Type ast.Expr
}

type Define struct {
	Name   string
	Params []string
	Body   ast.Expr
}

type Contract struct {
	Key           string
	Extern        bool
	Pure          bool
	Functional    bool // pure and a function of its (first-class) arguments only: modelled as an uninterpreted function plus its postconditions
	Deterministic bool // assumed (not checked): the result is a function of the arguments; modelled like functional
	Inline        bool
	Propagates    []string // property tags: an error returned by a callee makes this function return an error
	HasPropagates bool
	Trusted       bool         // contract is assumed, body not verified (listed in evidence)
	Instantiate   []ast.Expr   // extra integer terms at which the ghost postconditions of callees are instantiated (evaluated at each call)
	Aborts        bool         // the function may end the process (call a function that never returns); without it such a call must be unreachable
	Exhaustive    map[int]bool // loop ordinals that may only be left through their header or a return
	Unreachable   int          // number of return statements that cannot be reached under the precondition (vacuity allowance)
	Requires      []*Clause
	Ensures       []*Clause
	Invariants    []*Clause
	Modifies      []ast.Expr
	ModAll        bool
	Ghosts        []Ghost
	Defines       map[string]*Define
	Params        []string // for extern: parameter names
	File          string
	Line          int
	Props         map[string]bool
	Used          bool
}

// SpecFunc is an uninterpreted function that exists only in specifications.
type SpecFunc struct {
	Name   string
	Params []ast.Expr
	Result ast.Expr
}

type ContractSet struct {
	FieldWriters map[string][]string // "Type.Field" -> the functions allowed to assign that field (everybody else only reads it)
	NonNilMaps   []ast.Expr          // map types whose stored values are never nil (checked at every update, assumed at every lookup)
	SpecFuncs    map[string]*SpecFunc
	Funcs        map[string]*Contract
	Order        []string
	Defines      map[string]*Define
	Lemmas       []*Lemma
}

// Lemma is a closed implication over spec functions, discharged by the solver.
type Lemma struct {
	Name    string
	Ghosts  []Ghost
	Assumes []*Clause
	Proves  []*Clause
	Props   map[string]bool
	File    string
	Line    int
}

var kwRe = regexp.MustCompile(`^(func|extern|lemma|emits|specfunc|mapinv|requires|ensures|invariant|modifies|ghost|define|pure|functional|deterministic|propagates|inline|trusted|unreachable|instantiate|aborts|exhaustive|fieldwriters|assume|prove)\b`)
var propRe = regexp.MustCompile(`^\[([A-Z0-9, ]+)\]\s*`)
var invRe = regexp.MustCompile(`^invariant\[(\d+)\]\s*`)

func newContractSet() *ContractSet {
	return &ContractSet{Funcs: map[string]*Contract{}, Defines: map[string]*Define{}, SpecFuncs: map[string]*SpecFunc{}}
}

type rawClause struct {
	kw, text string
	line     int
	afterGap bool // first //@ line after a line that is not a //@ line
}

// ParseFile reads //@ lines of one file.
func (cs *ContractSet) ParseFile(path string) error {
	f, err := os.Open(path)
	if err != nil {
		return err
	}
	defer f.Close()
	sc := bufio.NewScanner(f)
	sc.Buffer(make([]byte, 1<<20), 1<<24)
	var raws []rawClause
	ln := 0
	gap := true
	for sc.Scan() {
		ln++
		line := strings.TrimSpace(sc.Text())
		if !strings.HasPrefix(line, "//@") {
			gap = true
			continue
		}
		body := strings.TrimSpace(strings.TrimPrefix(line, "//@"))
		if body == "" || strings.HasPrefix(body, "#") {
			continue
		}
		if i := strings.Index(body, " //"); i >= 0 { // trailing comment
			body = strings.TrimSpace(body[:i])
		}
		if m := kwRe.FindString(body); m != "" {
			raws = append(raws, rawClause{m, strings.TrimSpace(body[len(m):]), ln, gap})
			gap = false
		} else if len(raws) > 0 {
			raws[len(raws)-1].text += " " + body
		} else {
			return fmt.Errorf("%s:%d: continuation without clause", path, ln)
		}
	}
	if err := sc.Err(); err != nil {
		return err
	}
	var cur *Contract
	var lem *Lemma
	skipping := false // inside an `emits` template block (instantiated per shape by tier2/gen.py)
	for _, r := range raws {
		loc := fmt.Sprintf("%s:%d", path, r.line)
		switch r.kw {
		case "emits":
			cur, lem, skipping = nil, nil, true
			continue
		case "func", "extern", "lemma":
			skipping = false
		case "mapinv":
			te, err := parser.ParseExpr(strings.TrimSuffix(strings.TrimSpace(r.text), " nonnil"))
			if err != nil {
				return fmt.Errorf("%s: mapinv: %v", loc, err)
			}
			cs.NonNilMaps = append(cs.NonNilMaps, te)
			continue
		case "specfunc":
			// specfunc name(T1, T2) R
			fe, err := parser.ParseExpr("func" + r.text[strings.Index(r.text, "("):] + "{}")
			if err != nil {
				return fmt.Errorf("%s: specfunc: %v", loc, err)
			}
			ft := fe.(*ast.FuncLit).Type
			sf := &SpecFunc{Name: strings.TrimSpace(r.text[:strings.Index(r.text, "(")])}
			for _, p := range ft.Params.List {
				n := len(p.Names)
				if n == 0 {
					n = 1
				}
				for i := 0; i < n; i++ {
					sf.Params = append(sf.Params, p.Type)
				}
			}
			if ft.Results == nil || len(ft.Results.List) != 1 {
				return fmt.Errorf("%s: specfunc needs exactly one result", loc)
			}
			sf.Result = ft.Results.List[0].Type
			cs.SpecFuncs[sf.Name] = sf
			continue
		}
		if skipping {
			continue
		}
		switch r.kw {
		case "func", "extern":
			lem = nil
			key, params := r.text, []string(nil)
			if i := strings.Index(key, "("); i >= 0 && strings.HasSuffix(key, ")") {
				for _, p := range strings.Split(key[i+1:len(key)-1], ",") {
					if p = strings.TrimSpace(p); p != "" {
						params = append(params, p)
					}
				}
				key = strings.TrimSpace(key[:i])
			}
			if _, dup := cs.Funcs[key]; dup {
				return fmt.Errorf("%s: duplicate contract for %s", loc, key)
			}
			cur = &Contract{Key: key, Extern: r.kw == "extern", Defines: map[string]*Define{}, Params: params,
				File: path, Line: r.line, Props: map[string]bool{}}
			cs.Funcs[key] = cur
			cs.Order = append(cs.Order, key)
		case "lemma":
			cur = nil
			lem = &Lemma{Name: r.text, Props: map[string]bool{}, File: path, Line: r.line}
			cs.Lemmas = append(cs.Lemmas, lem)
		case "define":
			d, err := parseDefine(r.text)
			if err != nil {
				return fmt.Errorf("%s: %v", loc, err)
			}
			// a define that opens a block of //@ lines is file-level (and so are the defines that follow
			// it in that block); inside a contract it is local
			if r.afterGap {
				cur, lem = nil, nil
			}
			if cur != nil {
				cur.Defines[d.Name] = d
			} else {
				cs.Defines[d.Name] = d
			}
		case "ghost":
			parts := strings.Fields(r.text)
			if len(parts) < 2 {
				return fmt.Errorf("%s: ghost needs name and type", loc)
			}
			te, err := parser.ParseExpr(strings.Join(parts[1:], " "))
			if err != nil {
				return fmt.Errorf("%s: ghost type: %v", loc, err)
			}
			g := Ghost{parts[0], te}
			if lem != nil {
				lem.Ghosts = append(lem.Ghosts, g)
			} else if cur != nil {
				cur.Ghosts = append(cur.Ghosts, g)
			} else {
				return fmt.Errorf("%s: ghost outside contract", loc)
			}
		case "propagates":
			if cur == nil {
				return fmt.Errorf("%s: propagates outside contract", loc)
			}
			cur.HasPropagates = true
			if m := propRe.FindStringSubmatch(r.text + " "); m != nil {
				for _, p := range strings.Split(m[1], ",") {
					cur.Propagates = append(cur.Propagates, strings.TrimSpace(p))
					cur.Props[strings.TrimSpace(p)] = true
				}
			}
		case "instantiate":
			if cur == nil {
				return fmt.Errorf("%s: instantiate outside contract", loc)
			}
			e, err := parser.ParseExpr(r.text)
			if err != nil {
				return fmt.Errorf("%s: instantiate: %v", loc, err)
			}
			cur.Instantiate = append(cur.Instantiate, e)
		case "fieldwriters":
			// fieldwriters Type.Field: F1 F2 ...   (file level)
			parts := strings.SplitN(r.text, ":", 2)
			if len(parts) != 2 {
				return fmt.Errorf("%s: fieldwriters needs 'Type.Field: functions'", loc)
			}
			if cs.FieldWriters == nil {
				cs.FieldWriters = map[string][]string{}
			}
			cs.FieldWriters[strings.TrimSpace(parts[0])] = strings.Fields(parts[1])
			continue
		case "aborts":
			if cur == nil {
				return fmt.Errorf("%s: aborts outside contract", loc)
			}
			cur.Aborts = true
		case "exhaustive":
			if cur == nil {
				return fmt.Errorf("%s: exhaustive outside contract", loc)
			}
			if cur.Exhaustive == nil {
				cur.Exhaustive = map[int]bool{}
			}
			for _, f := range strings.Fields(r.text) {
				n, err := strconv.Atoi(f)
				if err != nil {
					return fmt.Errorf("%s: exhaustive needs loop ordinals", loc)
				}
				cur.Exhaustive[n] = true
			}
		case "unreachable":
			if cur == nil {
				return fmt.Errorf("%s: unreachable outside contract", loc)
			}
			n, err := strconv.Atoi(strings.Fields(r.text + " x")[0])
			if err != nil {
				return fmt.Errorf("%s: unreachable needs a number", loc)
			}
			cur.Unreachable = n
		case "pure", "inline", "trusted", "functional", "deterministic":
			if cur == nil {
				return fmt.Errorf("%s: %s outside contract", loc, r.kw)
			}
			switch r.kw {
			case "pure":
				cur.Pure = true
			case "functional":
				cur.Pure = true
				cur.Functional = true
			case "deterministic":
				cur.Pure = true
				cur.Deterministic = true
			case "inline":
				cur.Inline = true
			case "trusted":
				cur.Trusted = true
			}
		case "modifies":
			if cur == nil {
				return fmt.Errorf("%s: modifies outside contract", loc)
			}
			if strings.TrimSpace(r.text) == "*" {
				cur.ModAll = true
				continue
			}
			e, err := parser.ParseExpr("f(" + r.text + ")")
			if err != nil {
				return fmt.Errorf("%s: modifies: %v", loc, err)
			}
			cur.Modifies = append(cur.Modifies, e.(*ast.CallExpr).Args...)
		case "requires", "ensures", "invariant", "assume", "prove":
			text := r.text
			c := &Clause{Kind: r.kw, File: path, Line: r.line}
			if r.kw == "invariant" {
				full := "invariant" + text
				if m := invRe.FindStringSubmatch(full); m != nil {
					c.Loop, _ = strconv.Atoi(m[1])
					text = strings.TrimSpace(full[len(m[0]):])
				}
			}
			if m := propRe.FindStringSubmatch(text); m != nil {
				for _, p := range strings.Split(m[1], ",") {
					c.Props = append(c.Props, strings.TrimSpace(p))
				}
				text = text[len(m[0]):]
			}
			e, err := parser.ParseExpr(text)
			if err != nil {
				return fmt.Errorf("%s: %s: %v\n  %s", loc, r.kw, err, text)
			}
			c.Text, c.Expr = text, e
			if lem != nil {
				for _, p := range c.Props {
					lem.Props[p] = true
				}
				if r.kw == "assume" || r.kw == "requires" {
					lem.Assumes = append(lem.Assumes, c)
				} else {
					lem.Proves = append(lem.Proves, c)
				}
				continue
			}
			if cur == nil {
				return fmt.Errorf("%s: clause outside contract", loc)
			}
			for _, p := range c.Props {
				cur.Props[p] = true
			}
			switch r.kw {
			case "requires", "assume":
				cur.Requires = append(cur.Requires, c)
			case "ensures", "prove":
				cur.Ensures = append(cur.Ensures, c)
			case "invariant":
				cur.Invariants = append(cur.Invariants, c)
			}
		}
	}
	return nil
}

func parseDefine(text string) (*Define, error) {
	i := strings.Index(text, "=")
	for i >= 0 && i+1 < len(text) && (text[i+1] == '=') {
		// skip "==" occurrences before the defining '='
		j := strings.Index(text[i+2:], "=")
		if j < 0 {
			i = -1
			break
		}
		i = i + 2 + j
	}
	if i < 0 {
		return nil, fmt.Errorf("define needs '='")
	}
	head, body := strings.TrimSpace(text[:i]), strings.TrimSpace(text[i+1:])
	d := &Define{}
	if j := strings.Index(head, "("); j >= 0 {
		d.Name = strings.TrimSpace(head[:j])
		ps := strings.TrimSuffix(strings.TrimSpace(head[j+1:]), ")")
		for _, p := range strings.Split(ps, ",") {
			if p = strings.TrimSpace(p); p != "" {
				d.Params = append(d.Params, p)
			}
		}
	} else {
		d.Name = head
	}
	e, err := parser.ParseExpr(body)
	if err != nil {
		return nil, fmt.Errorf("define %s: %v", d.Name, err)
	}
	d.Body = e
	return d, nil
}
