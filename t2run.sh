#!/bin/sh
# dev helper: regenerate tier2 package and run govc on it
rm -rf /tmp/t2pkg /tmp/t2run.txt; python3 /verif/tier2/gen.py --out /tmp/t2pkg || exit 1
/verif/bin/govc -dir /tmp/t2pkg -contracts /tmp/t2pkg/contracts_prelude.go -contracts /tmp/t2pkg/contracts_gen.go -work /tmp/govc_w3 -out /tmp/t2rep.json ${T2FUNCS:+-funcs $T2FUNCS} > /tmp/t2run.txt 2>&1; tail -1 /tmp/t2run.txt
