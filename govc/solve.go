package main

import (
	"bytes"
	"context"
	"fmt"
	"os"
	"os/exec"
	"path/filepath"
	"strings"
	"sync"
	"time"
)

type Result struct {
	*Obligation
	Status  string  `json:"status"` // discharged | failed | unknown
	Solver  string  `json:"solver"`
	Seconds float64 `json:"seconds"`
	Answer  string  `json:"answer"`
	Model   string  `json:"model,omitempty"`
	Query   string  `json:"query_file,omitempty"`
}

func (vc *VC) query(o *Obligation) string {
	var b strings.Builder
	for _, d := range vc.S.decls {
		b.WriteString(d)
		b.WriteByte('\n')
	}
	for _, l := range vc.pre {
		b.WriteString(l)
		b.WriteByte('\n')
	}
	for _, l := range vc.lines[:o.Prefix] {
		b.WriteString(l)
		b.WriteByte('\n')
	}
	if o.Reach != "true" && o.Reach != "" {
		b.WriteString("(assert " + o.Reach + ")\n")
	}
	b.WriteString("(assert (not " + o.Goal + "))\n")
	b.WriteString("(check-sat)\n")
	return b.String()
}

type solverSpec struct {
	name   string
	argv   func(file string, timeoutS int) []string
	prefix string
}

var solvers = []solverSpec{
	{"z3-new", func(f string, t int) []string { return []string{"z3-new", fmt.Sprintf("-T:%d", t), f} }, ""},
	{"cvc5", func(f string, t int) []string {
		return []string{"cvc5", "--strings-exp", fmt.Sprintf("--tlimit=%d", t*1000), f}
	}, "(set-option :produce-models true)\n(set-logic ALL)\n"},
	{"z3", func(f string, t int) []string { return []string{"z3", fmt.Sprintf("-T:%d", t), f} }, ""},
}

func runSolver(s solverSpec, dir, name, q string, timeoutS int, wantModel bool, seed int) (string, string, float64) {
	file := filepath.Join(dir, name+"."+s.name+".smt2")
	text := s.prefix
	if seed != 0 && strings.HasPrefix(s.name, "z3") {
		text += fmt.Sprintf("(set-option :smt.random_seed %d)\n", seed%100000)
	}
	text += q
	if wantModel {
		text += "(get-model)\n"
	}
	if err := os.WriteFile(file, []byte(text), 0o644); err != nil {
		return "error", err.Error(), 0
	}
	ctx, cancel := context.WithTimeout(context.Background(), time.Duration(timeoutS+2)*time.Second)
	defer cancel()
	argv := s.argv(file, timeoutS)
	cmd := exec.CommandContext(ctx, argv[0], argv[1:]...)
	var out bytes.Buffer
	cmd.Stdout = &out
	cmd.Stderr = &out
	t0 := time.Now()
	_ = cmd.Run()
	el := time.Since(t0).Seconds()
	txt := out.String()
	first := strings.TrimSpace(strings.SplitN(txt, "\n", 2)[0])
	switch first {
	case "sat", "unsat", "unknown", "timeout":
	default:
		if strings.Contains(txt, "unsat") && !strings.Contains(txt, "error") {
			first = "unsat"
		} else if ctx.Err() != nil {
			first = "timeout"
		} else {
			first = "error"
		}
	}
	rest := ""
	if i := strings.Index(txt, "\n"); i >= 0 {
		rest = txt[i+1:]
	}
	if first == "error" {
		rest = txt
	}
	return first, rest, el
}

// solveAll discharges obligations in parallel. z3-new is tried first; the other solvers are
// raced only when it does not decide.
func solveAll(vcs []*VC, dir string, workers, timeoutS, seed int, keepQueries bool) []*Result {
	type job struct {
		vc *VC
		o  *Obligation
		r  *Result
	}
	var jobs []job
	var results []*Result
	for _, vc := range vcs {
		for _, o := range vc.obls {
			r := &Result{Obligation: o}
			results = append(results, r)
			jobs = append(jobs, job{vc, o, r})
		}
	}
	ch := make(chan job)
	var wg sync.WaitGroup
	for w := 0; w < workers; w++ {
		wg.Add(1)
		go func() {
			defer wg.Done()
			for j := range ch {
				q := j.vc.query(j.o)
				name := fmt.Sprintf("%s.%d", sanitize(j.o.Func), j.o.ID)
				ans, rest, el := runSolver(solvers[0], dir, name, q, min(timeoutS, 5), false, seed)
				solver := solvers[0].name
				total := el
				if ans != "unsat" && ans != "sat" {
					type sr struct {
						ans, rest, name string
						el              float64
					}
					rc := make(chan sr, 3)
					for _, s := range solvers {
						s := s
						go func() {
							a, r, e := runSolver(s, dir, name, q, timeoutS, false, seed)
							rc <- sr{a, r, s.name, e}
						}()
					}
					for i := 0; i < len(solvers); i++ {
						x := <-rc
						if x.ans == "unsat" || x.ans == "sat" {
							ans, rest, solver = x.ans, x.rest, x.name
							total += x.el
							break
						}
						if i == len(solvers)-1 {
							ans, rest, solver = x.ans, x.rest, "all"
							total += x.el
						}
					}
				}
				j.r.Solver, j.r.Seconds, j.r.Answer = solver, total, ans
				switch {
				case ans == "unsat":
					j.r.Status = "discharged"
				case ans == "sat":
					j.r.Status = "failed"
					// fetch a model
					for _, s := range solvers {
						if s.name == solver {
							_, m, _ := runSolver(s, dir, name+".model", q, timeoutS, true, seed)
							j.r.Model = m
						}
					}
				default:
					j.r.Status = "unknown"
					j.r.Model = rest
				}
				if j.o.ExpectFail {
					// canaries: sat is the good answer
					switch j.r.Status {
					case "failed":
						j.r.Status = "discharged"
						j.r.Model = ""
					case "discharged":
						j.r.Status = "failed"
					}
				}
				if keepQueries || j.r.Status != "discharged" {
					j.r.Query = filepath.Join(dir, name+".query.smt2")
					_ = os.WriteFile(j.r.Query, []byte(q), 0o644)
				}
			}
		}()
	}
	for _, j := range jobs {
		ch <- j
	}
	close(ch)
	wg.Wait()
	return results
}

func sanitize(s string) string {
	var b strings.Builder
	for _, c := range s {
		if c >= 'a' && c <= 'z' || c >= 'A' && c <= 'Z' || c >= '0' && c <= '9' || c == '_' || c == '-' {
			b.WriteRune(c)
		} else {
			b.WriteByte('_')
		}
	}
	return b.String()
}
