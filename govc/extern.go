package main

// Interpreted external functions (assumed semantics of library calls; every one used in a
// discharged obligation is reported in the evidence as part of the trusted base).

import (
	"fmt"
	"go/types"
	"os"
	"sort"
	"strconv"
	"strings"

	"golang.org/x/tools/go/ssa"
)

func sortStrings(s []string) { sort.Strings(s) }

var interpretedKeys = map[string]bool{
	"strings.Contains": true, "strings.HasPrefix": true, "strings.HasSuffix": true, "strings.Index": true,
	"strings.TrimPrefix": true, "strings.ReplaceAll": true, "strings.Replace": true, "strings.LastIndex": true,
	"strings.LastIndexAny": true, "diag.Diagnostics.Append": true, "sort.Slice": true, "sort.Strings": true,
}

func (e *Engine) isInterpreted(key string) bool { return interpretedKeys[key] }

// externMods: heap keys an interpreted/external call may modify (for loop havoc).
func (e *Engine) externMods(vc *VC, cc *ssa.CallCommon, key string) []string {
	switch key {
	case "diag.Diagnostics.Append":
		return []string{vc.cellKey(cc.Args[0].Type().Underlying().(*types.Pointer).Elem())}
	case "sort.Slice":
		if mi, ok := cc.Args[0].(*ssa.MakeInterface); ok {
			if s, ok := mi.X.Type().Underlying().(*types.Slice); ok {
				return []string{vc.elemKey(s.Elem())}
			}
		}
		return []string{"*"}
	}
	if c := e.contractFor(key); c != nil && (len(c.Modifies) > 0 || c.ModAll) {
		return []string{"*"}
	}
	return nil
}

func unquoteSMT(s string) (string, bool) {
	if len(s) < 2 || s[0] != '"' || s[len(s)-1] != '"' {
		return "", false
	}
	body := s[1 : len(s)-1]
	if strings.Contains(body, `\u{`) || strings.Contains(body, `""`) {
		return "", false
	}
	return body, true
}

// pureInterp gives the term for side-effect free interpreted functions.
func (vc *VC) pureInterp(key string, args []Val, rt types.Type, st *state) (Val, bool) {
	boolT, intT, strT := types.Typ[types.Bool], types.Typ[types.Int], types.Typ[types.String]
	a := func(i int) string { return args[i].T }
	switch key {
	case "strings.Contains":
		return Val{T: "(str.contains " + a(0) + " " + a(1) + ")", Typ: boolT}, true
	case "strings.HasPrefix":
		return Val{T: "(str.prefixof " + a(1) + " " + a(0) + ")", Typ: boolT}, true
	case "strings.HasSuffix":
		return Val{T: "(str.suffixof " + a(1) + " " + a(0) + ")", Typ: boolT}, true
	case "strings.Index":
		return Val{T: "(str.indexof " + a(0) + " " + a(1) + " 0)", Typ: intT}, true
	case "strings.TrimPrefix":
		return Val{T: fmt.Sprintf("(ite (str.prefixof %s %s) (str.substr %s (str.len %s) (- (str.len %s) (str.len %s))) %s)", a(1), a(0), a(0), a(1), a(0), a(1), a(0)), Typ: strT}, true
	case "strings.ReplaceAll":
		return Val{T: "(str.replace_all " + a(0) + " " + a(1) + " " + a(2) + ")", Typ: strT}, true
	case "strings.Replace":
		switch a(3) {
		case "(- 1)":
			return Val{T: "(str.replace_all " + a(0) + " " + a(1) + " " + a(2) + ")", Typ: strT}, true
		case "1":
			return Val{T: "(str.replace " + a(0) + " " + a(1) + " " + a(2) + ")", Typ: strT}, true
		}
		return Val{}, false
	case "strings.LastIndex":
		r := vc.ufApply(st, key, args, rt, "lastindex")
		s, t := a(0), a(1)
		vc.assume("true", fmt.Sprintf("(>= %s (- 1))", r.T))
		vc.assume("true", fmt.Sprintf("(= (= %s (- 1)) (not (str.contains %s %s)))", r.T, s, t))
		vc.assume("true", fmt.Sprintf("(=> (>= %s 0) (and (<= (+ %s (str.len %s)) (str.len %s)) (= (str.substr %s %s (str.len %s)) %s) (or (= (str.len %s) 0) (not (str.contains (str.substr %s (+ %s 1) (str.len %s)) %s)))))",
			r.T, r.T, t, s, s, r.T, t, t, t, s, r.T, s, t))
		return r, true
	case "strings.LastIndexAny":
		chars, ok := unquoteSMT(a(1))
		if !ok || chars == "" {
			return Val{}, false
		}
		r := vc.ufApply(st, key, args, rt, "lastindexany")
		s := a(0)
		var none, atR, noneAfter []string
		for _, c := range chars {
			lit := smtString(string(c))
			none = append(none, "(not (str.contains "+s+" "+lit+"))")
			atR = append(atR, fmt.Sprintf("(= (str.at %s %s) %s)", s, r.T, lit))
			noneAfter = append(noneAfter, fmt.Sprintf("(not (str.contains (str.substr %s (+ %s 1) (str.len %s)) %s))", s, r.T, s, lit))
		}
		vc.assume("true", fmt.Sprintf("(>= %s (- 1))", r.T))
		vc.assume("true", fmt.Sprintf("(= (= %s (- 1)) %s)", r.T, and(none...)))
		vc.assume("true", fmt.Sprintf("(=> (>= %s 0) (and (< %s (str.len %s)) %s %s))", r.T, r.T, s, or(atR...), and(noneAfter...)))
		return r, true
	}
	return Val{}, false
}

func (vc *VC) interpretedSpec(key string, args []Val, rt types.Type, st *state) (Val, bool) {
	if r, ok := vc.pureInterp(key, args, rt, st); ok {
		vc.assumed["interpreted: "+key] = true
		return r, true
	}
	return Val{}, false
}

func (vc *VC) interpreted(fr *frame, key string, cc *ssa.CallCommon, args []Val, rt types.Type, hint string, st *state, call ssa.Value) (Val, bool) {
	if r, ok := vc.pureInterp(key, args, rt, st); ok {
		vc.assumed["interpreted: "+key] = true
		n := vc.define(hint, vc.S.sortOf(rt), r.T)
		return vc.mkVal(n, rt), true
	}
	switch key {
	case "diag.Diagnostics.Append":
		vc.assumed["interpreted: diag.Diagnostics.Append (ordered-set insertion; duplicates by identity of type and fields)"] = true
		if args[0].Loc == nil {
			vc.errorf("%s: Append on unknown location", fr.fn.Name())
			return Val{Typ: rt}, true
		}
		n, ok := varargsLen(cc.Args[1])
		if !ok {
			vc.errorf("%s: Append with non-literal argument list", fr.fn.Name())
			return Val{Typ: rt}, true
		}
		d := vc.load(st, args[0].Loc)
		et := cc.Args[1].Type().Underlying().(*types.Slice).Elem()
		for i := int64(0); i < n; i++ {
			inner := vc.sel(st, vc.elemKey(et), "(sarr "+args[1].T+")")
			d = vc.define("diags", sortDiags, dinsert(d, fmt.Sprintf("(select %s %d)", inner, i)))
		}
		vc.store(st, args[0].Loc, d)
		return Val{Typ: rt}, true
	case "sort.Slice":
		vc.assumed["interpreted: sort.Slice (result is a permutation of the input, sorted by less)"] = true
		return vc.sortSlice(fr, cc, args, st), true
	case "sort.Strings":
		vc.assumed["interpreted: sort.Strings (result is a permutation of the input in increasing order)"] = true
		return vc.sortSliceOf(fr, cc.Args[0], st, true), true
	}
	return Val{}, false
}

// sortSlice: the backing array content is replaced by a permutation perm of the old content.
// The permutation is an uninterpreted bijection instantiated at ghost integers; sortedness is
// instantiated at pairs of ghost integers through the comparator closure.
func (vc *VC) sortSlice(fr *frame, cc *ssa.CallCommon, args []Val, st *state) Val {
	mi, ok := cc.Args[0].(*ssa.MakeInterface)
	if !ok {
		vc.errorf("%s: sort.Slice on non-literal interface", fr.fn.Name())
		return Val{}
	}
	r := vc.sortSliceOf(fr, mi.X, st, false)
	vc.sortedByLess(fr, cc.Args[1], st)
	return r
}

// sortedByLess: after sort.Slice(s, less) no later element is less than an earlier one. The
// comparator is executed symbolically (inlined) in the state after the sort for every ordered pair
// (a, b) of integer ghosts with 0 <= a < b < len(s): less(b, a) is false. The safety obligations
// of the comparator's body are generated under the same condition (sort.Slice may call less on any
// pair of valid indices).
func (vc *VC) sortedByLess(fr *frame, lessV ssa.Value, st *state) {
	var fn *ssa.Function
	var bindings []ssa.Value
	switch x := lessV.(type) {
	case *ssa.MakeClosure:
		fn, _ = x.Fn.(*ssa.Function)
		bindings = x.Bindings
	case *ssa.Function:
		fn = x
	}
	if fn == nil || fn.Blocks == nil || len(fn.Params) != 2 {
		vc.assumed["sort.Slice: order by the comparator not derived (comparator is not a function literal)"] = true
		return
	}
	si := vc.eng.lastSort[vc]
	gs := vc.ghostByKey["Int"]
	intT := fn.Params[0].Type()
	for _, a := range gs {
		for _, b := range gs {
			if a == b {
				continue
			}
			cond := fmt.Sprintf("(and (<= 0 %s) (< %s %s) (< %s %s))", a, a, b, b, si.n)
			vc.nfresh++
			nf := vc.newFrame(fn, fmt.Sprintf("%sless$%d.", fr.prefix, vc.nfresh), fr.depth+1, append(append([]string{}, fr.stack...), funcKey(fn)))
			nf.vals[fn.Params[0]] = Val{T: b, Typ: intT}
			nf.vals[fn.Params[1]] = Val{T: a, Typ: intT}
			for i, fv := range fn.FreeVars {
				nf.vals[fv] = vc.get(fr, bindings[i])
			}
			sub := state{reach: vc.define("reach", "Bool", and(st.reach, cond)), heap: st.heap.clone()}
			rets := vc.run(nf, sub)
			for _, r := range rets {
				if len(r.vals) == 1 {
					vc.assume(r.reach, "(not "+r.vals[0].T+")")
				}
			}
		}
	}
}

func (vc *VC) sortSliceOf(fr *frame, sv ssa.Value, st *state, increasing bool) Val {
	sl, ok := sv.Type().Underlying().(*types.Slice)
	if !ok {
		vc.errorf("%s: sorting a non-slice", fr.fn.Name())
		return Val{}
	}
	s := vc.get(fr, sv)
	key := vc.elemKey(sl.Elem())
	es := vc.S.sortOf(sl.Elem())
	arr := "(sarr " + s.T + ")"
	oldInner := vc.define("sort.old", "(Array Int "+es+")", vc.sel(st, key, arr))
	newInner := vc.freshConst("sort.new", "(Array Int "+es+")")
	vc.nfresh++
	perm := q(fmt.Sprintf("perm!%d", vc.nfresh))
	inv := q(fmt.Sprintf("perminv!%d", vc.nfresh))
	vc.S.declare(perm, fmt.Sprintf("(declare-fun %s (Int) Int)", perm))
	vc.S.declare(inv, fmt.Sprintf("(declare-fun %s (Int) Int)", inv))
	n := "(slen " + s.T + ")"
	for _, g := range vc.ghostByKey["Int"] {
		in := fmt.Sprintf("(and (<= 0 %s) (< %s %s))", g, g, n)
		// new[g] = old[perm(g)], perm(g) in range, perminv(perm(g)) = g ; old[g] = new[perminv(g)]
		vc.assume(st.reach, fmt.Sprintf("(=> %s (and (<= 0 (%s %s)) (< (%s %s) %s) (= (%s (%s %s)) %s) (= (select %s %s) (select %s (%s %s)))))", in, perm, g, perm, g, n, inv, perm, g, g, newInner, g, oldInner, perm, g))
		vc.assume(st.reach, fmt.Sprintf("(=> %s (and (<= 0 (%s %s)) (< (%s %s) %s) (= (%s (%s %s)) %s) (= (select %s %s) (select %s (%s %s)))))", in, inv, g, inv, g, n, perm, inv, g, g, oldInner, g, newInner, inv, g))
	}
	// Invariants of loops that have just been left hold for every value of their integer ghosts (they
	// were proved for arbitrary ones); instantiate them at the pre-images of the ghost indices, so that
	// element-wise facts survive the permutation. Only when nothing was written since the loop exit.
	if fr.depth == 0 && vc.contract != nil {
		cur := st.heap
		for h, hx := range fr.loopExit {
			same := len(hx) == len(cur)
			for k, v := range hx {
				if cur[k] != v {
					same = false
				}
			}
			if os.Getenv("GOVC_DEBUG_FRAME") != "" {
				fmt.Fprintf(os.Stderr, "sort: loop %d same=%v (%d vs %d keys)\n", fr.loopOrds[h], same, len(hx), len(cur))
				for k, v := range cur {
					if hx[k] != v {
						fmt.Fprintf(os.Stderr, "   %s: %s vs %s\n", k, hx[k], v)
					}
				}
			}
			if !same {
				continue
			}
			invs := vc.loopInvariants(fr, fr.loopOrds[h])
			for _, g := range vc.ghostByKey["Int"] {
				for _, at := range []string{fmt.Sprintf("(%s %s)", perm, g), fmt.Sprintf("(%s %s)", inv, g)} {
					env := vc.specEnv(fr, st, h)
					for _, gd := range vc.contract.Ghosts {
						if gv, ok := vc.ghosts[gd.Name]; ok && vc.S.sortOf(gv.Typ) == "Int" {
							env.vars[gd.Name] = Val{T: at, Typ: gv.Typ}
						}
					}
					for _, c := range invs {
						if t, err := env.evalBool(c.Expr); err == nil {
							vc.assume(st.reach, t)
						}
					}
				}
			}
		}
	}
	if increasing {
		gs := vc.ghostByKey["Int"]
		for _, a := range gs {
			for _, b := range gs {
				if a == b {
					continue
				}
				vc.assume(st.reach, fmt.Sprintf("(=> (and (<= 0 %s) (< %s %s) (< %s %s)) (str.<= (select %s %s) (select %s %s)))", a, a, b, b, n, newInner, a, newInner, b))
			}
		}
	}
	st.heap[key] = vc.define("h", vc.heapSort[key], fmt.Sprintf("(store %s %s %s)", vc.heapGet(st.heap, key), arr, newInner))
	vc.eng.lastSort[vc] = sortInfo{newInner: newInner, oldInner: oldInner, perm: perm, inv: inv, n: n}
	return Val{}
}

type sortInfo struct{ newInner, oldInner, perm, inv, n string }

var _ = strconv.Itoa
