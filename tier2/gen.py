#!/usr/bin/env python3
"""Tier-2 package generator: runs the real emitters of /repo's working tree (go test -overlay),
writes the emitted functions verbatim into a scratch Go package, and instantiates the shape
contract templates (//@ emits ... blocks of /repo/verif_contracts.go)."""
import json, os, re, subprocess, sys, shutil

GOENV = dict(os.environ, GOFLAGS="-mod=mod", GOPROXY="off", GOSUMDB="off", GOTOOLCHAIN="local")
HERE = os.path.dirname(os.path.abspath(__file__))

def extract(repo, work):
    out = os.path.join(work, "shapes.json")
    ov = os.path.join(work, "ov.json")
    json.dump({"Replace": {os.path.join(repo, "verif_t2_extract_test.go"): os.path.join(HERE, "extract_test.go.txt")}}, open(ov, "w"))
    env = dict(GOENV, VERIF_T2_OUT=out)
    p = subprocess.run(["go", "test", "-overlay", ov, "-vet=off", "-count=1", "-timeout", "120s", "-run", "TestVerifTier2Extract", "."],
                       cwd=repo, env=env, capture_output=True, text=True)
    if p.returncode != 0 or not os.path.exists(out):
        raise SystemExit("tier2 extraction failed:\n" + p.stdout + p.stderr)
    return json.load(open(out))

def go_mod(repo):
    req = []
    for l in open(os.path.join(repo, "go.mod")):
        req.append(l)
    txt = "".join(req)
    txt = re.sub(r"^module .*$", "module tier2", txt, flags=re.M)
    return txt

WHEN_TOK = re.compile(r'\s*(==|!=|&&|\|\||!|\(|\)|"[^"]*"|[A-Za-z_][A-Za-z_0-9]*)')

UNIVERSE = set()

def eval_when(expr, attrs):
    """Evaluate a `when` predicate (Go boolean syntax over shape attributes)."""
    toks = []
    pos = 0
    while pos < len(expr):
        m = WHEN_TOK.match(expr, pos)
        if not m:
            if expr[pos:].strip() == "":
                break
            raise ValueError("bad when expression: " + expr)
        toks.append(m.group(1)); pos = m.end()
    py = []
    for t in toks:
        if t == "&&": py.append("and")
        elif t == "||": py.append("or")
        elif t == "!": py.append("not")
        elif t in ("==", "!=", "(", ")"): py.append(t)
        elif t.startswith('"'): py.append(repr(t[1:-1]))
        elif t in ("true", "false"): py.append("True" if t == "true" else "False")
        else:
            v = attrs.get(t)
            if v is None:
                if t not in UNIVERSE: raise ValueError("unknown shape attribute %s in: %s" % (t, expr))
                v = ""
            if v in ("true", "false"): py.append("True" if v == "true" else "False")
            else: py.append(repr(v))
    return bool(eval(" ".join(py)))

def parse_templates(path):
    """Returns list of (direction, when, [clause lines]) from //@ emits blocks."""
    tpls = []
    cur = None
    for raw in open(path):
        line = raw.strip()
        if not line.startswith("//@"):
            if cur is not None and line == "":
                cur = None
            continue
        body = line[3:].strip()
        m = re.match(r"emits\s+(\w+)\s+when\s+(.*)$", body)
        if m:
            cur = (m.group(1), m.group(2), [])
            tpls.append(cur)
            continue
        if re.match(r"(func|extern|lemma)\b", body):
            cur = None
            continue
        if cur is not None:
            cur[2].append(body)
    return tpls

def subst(text, attrs):
    def rep(m):
        k = m.group(1) or m.group(2)
        if k not in attrs:
            raise ValueError("unknown metavariable $%s" % k)
        return attrs[k]
    return re.sub(r"\$\{([A-Za-z_][A-Za-z_0-9]*)\}|\$([A-Za-z_][A-Za-z_0-9]*)", rep, text)

def short_type(t):
    """github.com/x/y/types.Int64 -> types.Int64 (spec expressions use package names)."""
    m = re.match(r"^(.*?)([^/]*)$", t)
    return m.group(2) if m else t

def main():
    import argparse
    ap = argparse.ArgumentParser()
    ap.add_argument("--repo", default="/repo")
    ap.add_argument("--out", required=True)
    ap.add_argument("--contracts", default=None)
    a = ap.parse_args()
    out = a.out
    os.makedirs(out, exist_ok=True)
    data = extract(a.repo, out)
    open(os.path.join(out, "go.mod"), "w").write(go_mod(a.repo))
    shutil.copy(os.path.join(a.repo, "go.sum"), os.path.join(out, "go.sum"))
    open(os.path.join(out, "prelude.go"), "w").write(open(os.path.join(HERE, "prelude.go.txt")).read())
    shutil.copy(os.path.join(HERE, "prelude_contracts.go.txt"), os.path.join(out, "contracts_prelude.go"))
    ut = open(os.path.join(a.repo, "test", "time_duration.go")).read()
    ut = re.sub(r"^package \w+", "package tier2", ut, flags=re.M)
    open(os.path.join(out, "usertypes.go"), "w").write(ut)
    def imports_for(text):
        # the real pipeline runs goimports, which drops unused imports; here: keep the qualifiers the text mentions
        used_imps = [(k, v) for k, v in sorted(data["imports"].items()) if re.search(r"\b%s\." % re.escape(k), text)]
        return "import (\n" + "".join('\t%s "%s"\n' % kv for kv in used_imps) + ")\n"
    shutil.copy(os.path.join(HERE, "shared_bounded_test.go.txt"), os.path.join(out, "zz_shared_bounded_test.go"))
    open(os.path.join(out, "shared.go"), "w").write("package tier2\n\n" + imports_for(data["shared"]) + "\n" + data["shared"])
    tpls = parse_templates(a.contracts or os.path.join(a.repo, "verif_contracts.go"))
    contract_lines = ["//go:build verif", "", "package tier2", ""]
    index = []
    used = set()
    shape_attrs = {}
    for sh in data["shapes"]:
        UNIVERSE.update(sh["attrs"].keys())
    UNIVERSE.update(["InjectRoot", "InjectNested", "L", "ID", "VT", "EVT", "TT", "ET", "M", "SchemaTypeExpr", "Nesting"])
    for sh in data["shapes"]:
        sid = sh["id"]
        attrs = dict(sh["attrs"])
        attrs["ID"] = attrs.get("BaseID") or sid
        attrs["VT"] = short_type(attrs["ValueType"])
        attrs["EVT"] = short_type(attrs["ElemValueType"])
        attrs["TT"] = short_type(attrs["Type"])
        attrs["ET"] = short_type(attrs["ElemType"])
        attrs["M"] = "M_" + attrs["ID"]
        # the schema literal's Type expression as documented: a scalar type value, the configured
        # constructor, or an empty literal of the type; lists and maps wrap the element's expression
        def prim_expr():
            if attrs.get("IsTypeScalar") == "true": return attrs["ET"]
            if attrs.get("TypeConstructor"): return short_type(attrs["TypeConstructor"])
            return attrs["ET"] + "{}"
        if attrs["Kind"] == "Primitive": attrs["SchemaTypeExpr"] = prim_expr()
        elif attrs["Kind"] in ("PrimitiveList", "PrimitiveMap"): attrs["SchemaTypeExpr"] = "%s{ElemType: %s}" % (attrs["TT"], prim_expr())
        else: attrs["SchemaTypeExpr"] = "nil"
        attrs["L"] = "1" if attrs.get("IsMap") == "true" else "0"
        attrs["Nesting"] = {"Object": "Single", "ObjectList": "List", "ObjectMap": "Map"}.get(attrs["Kind"], "")
        shape_attrs[sid] = attrs
        body = sh["struct_def"] + "\n"
        funcs = {}
        for d, key, fname in (("CopyFrom", "copy_from", "Copy%sFromTerraform" % sid), ("CopyTo", "copy_to", "Copy%sToTerraform" % sid), ("Schema", "schema", "GenSchema%s" % sid)):
            txt = sh[key]
            if txt == "SKIP":
                continue
            if txt.startswith("PANIC") or txt.startswith("ERROR"):
                index.append({"shape": sid, "dir": d, "func": fname, "emit_error": txt})
                continue
            if d != "Schema" and attrs.get("FlagsOnly") == "true":
                continue
            body += txt + "\n"
            funcs[d] = fname
        open(os.path.join(out, "s_%s.go" % sid), "w").write("package tier2\n\n" + imports_for(body) + "\n" + body)
        for d, fname in funcs.items():
            clauses = []
            for ti, (td, when, lines) in enumerate(tpls):
                if td != d: continue
                try:
                    ok = eval_when(when, attrs)
                except ValueError as e:
                    raise SystemExit("template %s when %s: %s" % (td, when, e))
                if ok:
                    used.add(ti)
                    clauses += [subst(l, attrs) for l in lines]
            index.append({"shape": sid, "dir": d, "func": fname, "attrs": sh["attrs"], "clauses": len(clauses)})
            if clauses:
                contract_lines.append("//@ func " + fname)
                contract_lines += ["//@ " + c for c in clauses]
                contract_lines.append("")
    # Tier 3: glue functions composing the two converters of a shape, with the lemma templates of
    # harness.go.txt as their contracts (verified modularly against the converters' contracts)
    htpls = parse_templates(os.path.join(HERE, "harness.go.txt"))
    GLUE = {
        "RoundTrip": ("func RoundTrip_%(sid)s(ctx context.Context, obj *%(M)s, tf *%(types)s.Object, out *%(M)s) (%(diag)s.Diagnostics, %(diag)s.Diagnostics) {\n"
                      "\td1 := Copy%(sid)sToTerraform(ctx, obj, tf)\n\td2 := Copy%(sid)sFromTerraform(ctx, *tf, out)\n\treturn d1, d2\n}\n"),
        "Echo": ("func Echo_%(sid)s(ctx context.Context, plan *%(types)s.Object, mid *%(M)s, back *%(M)s) (%(diag)s.Diagnostics, %(diag)s.Diagnostics, %(diag)s.Diagnostics) {\n"
                 "\td1 := Copy%(sid)sFromTerraform(ctx, *plan, mid)\n\td2 := Copy%(sid)sToTerraform(ctx, mid, plan)\n\td3 := Copy%(sid)sFromTerraform(ctx, *plan, back)\n\treturn d1, d2, d3\n}\n"),
        "Refresh": ("func Refresh_%(sid)s(ctx context.Context, a *%(M)s, b *%(M)s, tf *%(types)s.Object) (%(diag)s.Diagnostics, %(diag)s.Diagnostics, %(diag)s.Diagnostics, %(attr)s.Value) {\n"
                    "\td1 := Copy%(sid)sToTerraform(ctx, a, tf)\n\td2 := Copy%(sid)sToTerraform(ctx, b, tf)\n\tsnap := tf.Attrs[\"%(ns)s\"]\n\td3 := Copy%(sid)sToTerraform(ctx, b, tf)\n\treturn d1, d2, d3, snap\n}\n"),
    }
    by_shape = {}
    for e in index:
        if "emit_error" not in e:
            by_shape.setdefault(e["shape"], set()).add(e["dir"])
    for sh in data["shapes"]:
        sid = sh["id"]
        if not {"CopyFrom", "CopyTo"} <= by_shape.get(sid, set()):
            continue
        mm = re.search(r"type (M_\w+) struct", sh["struct_def"])
        if not mm:
            continue
        attrs = shape_attrs[sid]
        glue_body = ""
        for kind, code in GLUE.items():
            clauses, has_goal = [], False
            for td, when, lines in htpls:
                if td != kind: continue
                if eval_when(when, attrs):
                    clauses += [subst(l, attrs) for l in lines]
            if not any(c.startswith("ensures") for c in clauses):
                continue
            fname = "%s_%s" % (kind, sid)
            glue_body += code % {"sid": sid, "M": mm.group(1), "types": "github_com_hashicorp_terraform_plugin_framework_types",
                                 "diag": "github_com_hashicorp_terraform_plugin_framework_diag",
                                 "attr": "github_com_hashicorp_terraform_plugin_framework_attr", "ns": attrs["NameSnake"]} + "\n"
            contract_lines.append("//@ func " + fname)
            contract_lines += ["//@ " + c for c in clauses]
            contract_lines.append("")
            index.append({"shape": sid, "dir": kind, "func": fname, "attrs": sh["attrs"], "clauses": len(clauses), "glue": True})
        if glue_body:
            open(os.path.join(out, "h_%s.go" % sid), "w").write("package tier2\n\n// glue (not code of /repo): compositions of the emitted converters, see tier2/harness.go.txt\n\n" + imports_for(glue_body) + "\n" + glue_body)
    # typed(<shape>): every emitted file must type-check against the prelude (C01). Files that do not are
    # set aside (reported by the driver) so the remaining shapes can still be loaded and verified.
    type_errors = {}
    for _ in range(4):
        p = subprocess.run(["go", "build", "-gcflags=-e", "./..."], cwd=out, env=GOENV, capture_output=True, text=True)
        if p.returncode == 0:
            break
        bad = {}
        for l in (p.stdout + p.stderr).splitlines():
            m = re.match(r"^(?:\./)?(s_[A-Za-z0-9_]+)\.go:(\d+):(\d+): (.*)$", l.strip())
            if m:
                bad.setdefault(m.group(1)[2:], []).append("%s:%s: %s" % (m.group(2), m.group(4 - 1), m.group(4)))
        if not bad:
            raise SystemExit("tier2 package does not build and the errors are not in shape files:\n" + p.stdout + p.stderr)
        for sid, errs in bad.items():
            type_errors[sid] = errs
            src = os.path.join(out, "s_%s.go" % sid)
            os.rename(src, src + ".rejected")
            if os.path.exists(os.path.join(out, "h_%s.go" % sid)):
                os.remove(os.path.join(out, "h_%s.go" % sid))
    else:
        raise SystemExit("tier2 package still does not build after removing ill-typed shapes")
    # contracts of rejected shapes are dropped
    keep, skip = [], False
    for l in contract_lines:
        if l.startswith("//@ func "):
            fn = l[len("//@ func "):].strip()
            sid = re.sub(r"^(Copy|GenSchema|RoundTrip_|Echo_|Refresh_)", "", fn)
            sid = re.sub(r"(FromTerraform|ToTerraform)$", "", sid)
            skip = sid in type_errors
        if not skip:
            keep.append(l)
    contract_lines = keep
    for e in index:
        if e["shape"] in type_errors:
            e["type_errors"] = type_errors[e["shape"]]
    open(os.path.join(out, "contracts_gen.go"), "w").write("\n".join(contract_lines) + "\n")
    # replay hints: the attribute types a schema-typed target has for this shape
    hints = {}
    for sh in data["shapes"]:
        a = sh["attrs"]
        kind = a["Kind"]
        def prim():
            et = short_type(a["ElemType"])
            if a.get("IsTypeScalar") == "true": return et
            if a.get("TypeConstructor"): return short_type(a["TypeConstructor"])
            return et + "{}"
        h = {"[g]": "types.Int64Type", "[s]": "types.Int64Type", "[x]": "types.Int64Type", "[active]": "types.BoolType"}
        ns = a["NameSnake"]
        if kind == "Primitive": h["[%s]" % ns] = prim()
        elif kind in ("PrimitiveList", "PrimitiveMap"): h["[%s].ElemType" % ns] = prim()
        for fn in ("Copy%sToTerraform" % sh["id"], "Copy%sFromTerraform" % sh["id"]):
            hints[fn] = h
    json.dump(hints, open(os.path.join(out, "replay_hints.json"), "w"), indent=1)
    json.dump({"flip_diffs": data.get("flip_diffs") or [], "functions": index, "msg_from": data["msg_from"], "msg_to": data["msg_to"], "msg_schema": data["msg_schema"],
               "unused_templates": [tpls[i][1] for i in range(len(tpls)) if i not in used]}, open(os.path.join(out, "index.json"), "w"), indent=1)
    print("tier2: ill-typed shapes: %s" % sorted(type_errors))
    print("tier2: %d shapes, %d functions, %d with contracts" % (len(data["shapes"]), len(index), sum(1 for x in index if x.get("clauses"))))

if __name__ == "__main__":
    main()
