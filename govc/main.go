package main

import (
	"fmt"
	"os"

	"golang.org/x/tools/go/packages"
	"golang.org/x/tools/go/ssa"
	"golang.org/x/tools/go/ssa/ssautil"
)

func main() {
	cfg := &packages.Config{Mode: packages.LoadSyntax, Dir: "/repo", BuildFlags: []string{"-tags=verif"}}
	pkgs, err := packages.Load(cfg, ".")
	if err != nil {
		panic(err)
	}
	prog, spkgs := ssautil.Packages(pkgs, ssa.GlobalDebug)
	prog.Build()
	fn := spkgs[0].Func("flagMapFromArray")
	fn.WriteTo(os.Stdout)
	fmt.Println(len(spkgs))
}
