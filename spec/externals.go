//go:build verif

// Assumed contracts on dependencies (standard library, gogo, strcase, trace, yaml). Every one that
// takes part in a discharged obligation is listed in the evidence file ("assumed contract: ...").
// Functions not listed here and not interpreted by govc are uninterpreted functions of their
// arguments without effect on verified memory.
package main

// ---- strings
//@ extern strings.TrimSpace(s)
//@ ensures strings.TrimSpace(result) == result
//@ ensures imp(s == "", result == "")
//@ ensures len(result) <= len(s)
//@ ensures !prefix(result, " ") && !suffix(result, " ") && !prefix(result, "\n") && !suffix(result, "\n") && !prefix(result, "\r") && !suffix(result, "\r") && !prefix(result, "\t") && !suffix(result, "\t")

//@ extern strings.Trim(s, cutset)
//@ ensures imp(s == "", result == "")
//@ ensures len(result) <= len(s)

//@ extern strings.ToLower(s)
//@ ensures len(result) == len(s)
//@ ensures imp(s == "", result == "")

//@ extern strings.Split(s, sep)
//@ ensures fresh(result)
//@ ensures imp(sep != "", len(result) >= 1 && !isnilslice(result))
//@ ensures imp(sep != "" && !strcontains(s, sep), len(result) == 1 && result[0] == s)
//@ ensures imp(sep != "" && strcontains(s, sep), len(result) >= 2 && result[0] == s[0:indexof(s, sep)])

//@ extern strings.Join(elems, sep)
//@ ensures imp(len(elems) == 0, result == "")
//@ ensures imp(len(elems) == 1, result == elems[0])

//@ extern strconv.Itoa(i)
//@ ensures result != ""

//@ extern strconv.ParseBool(str)
//@ ensures imp(str == "true" || str == "1" || str == "t", result0 == true && result1 == nil)
//@ ensures imp(str == "false" || str == "0" || str == "f", result0 == false && result1 == nil)
//@ ensures imp(result1 != nil, result0 == false)

// ---- gravitational/trace: Wrap(nil) == nil, Wrap(err) != nil; Errorf / BadParameter never nil
//@ extern trace.Wrap(err, args)
//@ ensures (result == nil) == (err == nil)
//@ extern trace.Errorf(format, args)
//@ ensures result != nil
//@ extern trace.BadParameter(message, args)
//@ ensures result != nil

// ---- yaml: the decoded contents are not modelled (any field may change); the error is a function of the input
//@ specfunc yamlErr(in []byte) error
//@ extern yaml.Unmarshal(in, out)
//@ modifies **as(out, **Config)
//@ ensures result == yamlErr(in)
//@ ensures (**as(out, **Config)).params == old((**as(out, **Config)).params)

// ---- gogo generator: import registration
//@ extern generator.PluginImports.NewImport(p, path)
//@ ensures result != nil

// ---- gogo generator objects: every descriptor object belongs to a file
//@ extern generator.common.File(c)
//@ ensures result != nil

// ---- resolved message descriptors carry their proto and their oneof declarations (gogo builds them so)
// (part of the supported fragment D: descriptor well-formedness as protoc and gogo guarantee it)
//@ extern generator.Generator.ObjectNamed(g, typeName)
//@ ghost j0 int
//@ ensures imp(is(result, *generator.Descriptor) && as(result, *generator.Descriptor) != nil, descOK(g, as(result, *generator.Descriptor), j0))
