package main

import (
	"fmt"
	"go/ast"
	"go/token"
	"go/types"
	"os"
	"path/filepath"
	"sort"
	"strings"

	"golang.org/x/tools/go/packages"
	"golang.org/x/tools/go/ssa"
	"golang.org/x/tools/go/ssa/ssautil"
)

type Engine struct {
	prog        *ssa.Program
	pkgs        []*ssa.Package
	tpkgs       []*packages.Package
	fset        *token.FileSet
	contracts   *ContractSet
	globals     map[*ssa.Global]int
	closures    map[string]*ssa.MakeClosure
	specMemo    map[*VC]map[string]Val
	lastSort    map[*VC]sortInfo
	funcs       map[string]*ssa.Function
	funcRefs    map[string]int
	gwCache     map[*ssa.Package][]string
	replayHints map[string]map[string]string
}

func loadEngine(dir string, patterns []string, tags string, overlay map[string][]byte) (*Engine, error) {
	cfg := &packages.Config{Mode: packages.LoadSyntax, Dir: dir, Overlay: overlay,
		Env: append(os.Environ(), "GOFLAGS=-mod=mod", "GOPROXY=off", "GOSUMDB=off", "GOTOOLCHAIN=local")}
	if tags != "" {
		cfg.BuildFlags = []string{"-tags=" + tags}
	}
	pkgs, err := packages.Load(cfg, patterns...)
	if err != nil {
		return nil, err
	}
	var errs []string
	for _, p := range pkgs {
		for _, e := range p.Errors {
			errs = append(errs, e.Error())
		}
	}
	if len(errs) > 0 {
		return nil, fmt.Errorf("package errors:\n%s", strings.Join(errs, "\n"))
	}
	prog, spkgs := ssautil.Packages(pkgs, ssa.GlobalDebug|ssa.InstantiateGenerics)
	prog.Build()
	e := &Engine{prog: prog, tpkgs: pkgs, fset: pkgs[0].Fset, contracts: newContractSet(), globals: map[*ssa.Global]int{},
		closures: map[string]*ssa.MakeClosure{}, specMemo: map[*VC]map[string]Val{}, lastSort: map[*VC]sortInfo{},
		funcs: map[string]*ssa.Function{}, funcRefs: map[string]int{}, gwCache: map[*ssa.Package][]string{}}
	for _, sp := range spkgs {
		if sp == nil {
			continue
		}
		e.pkgs = append(e.pkgs, sp)
		for _, m := range sp.Members {
			switch x := m.(type) {
			case *ssa.Function:
				e.funcs[funcKey(x)] = x
			case *ssa.Type:
				for _, t := range []types.Type{x.Type(), types.NewPointer(x.Type())} {
					ms := prog.MethodSets.MethodSet(t)
					for i := 0; i < ms.Len(); i++ {
						if fn := prog.MethodValue(ms.At(i)); fn != nil && fn.Synthetic == "" {
							e.funcs[funcKey(fn)] = fn
						}
					}
				}
			}
		}
	}
	return e, nil
}

func (e *Engine) contractFor(key string) *Contract {
	return e.contracts.Funcs[key]
}

func (e *Engine) specPkg(fn *ssa.Function) *types.Package {
	if fn != nil && fn.Pkg != nil {
		for _, p := range e.pkgs {
			if p == fn.Pkg {
				return p.Pkg
			}
		}
	}
	return e.pkgs[0].Pkg
}

func (e *Engine) globalRef(g *ssa.Global) string {
	n, ok := e.globals[g]
	if !ok {
		n = len(e.globals) + 1
		e.globals[g] = n
	}
	return fmt.Sprintf("(- %d)", n)
}

func (e *Engine) globalByObj(v *types.Var) *ssa.Global {
	for _, p := range e.pkgs {
		if g, ok := p.Members[v.Name()].(*ssa.Global); ok && g.Object() == v {
			return g
		}
	}
	if v.Pkg() != nil {
		if p := e.prog.Package(v.Pkg()); p != nil {
			if g, ok := p.Members[v.Name()].(*ssa.Global); ok {
				return g
			}
		}
	}
	return nil
}

func (e *Engine) funcRef(vc *VC, f *ssa.Function) string {
	k := f.String()
	n, ok := e.funcRefs[k]
	if !ok {
		n = len(e.funcRefs) + 1
		e.funcRefs[k] = n
	}
	return fmt.Sprintf("(- %d)", 1000000+n)
}

// nonNilMap: values stored in maps of this type are never nil
func (vc *VC) nonNilMap(m *types.Map) bool {
	if vc.nnMaps == nil {
		vc.nnMaps = map[string]bool{}
		env := &SpecEnv{vc: vc, pkg: vc.eng.pkgs[0].Pkg}
		for _, te := range vc.eng.contracts.NonNilMaps {
			if t, err := env.resolveType(te); err == nil {
				vc.nnMaps[typeKey(t.Underlying())] = true
			}
		}
	}
	return vc.nnMaps[typeKey(m)]
}

func newVC(e *Engine, key string, c *Contract) *VC {
	vc := &VC{eng: e, S: newSorts(), fnKey: key, contract: c, initHeap: Heap{}, heapSort: map[string]string{},
		frames: map[string][]frameAx{}, ghosts: map[string]Val{}, mapKeys: map[string][]string{}, assumed: map[string]bool{},
		inlined: map[string]bool{}, params: map[string]Val{}, ghostByKey: map[string][]string{}, frameSk: map[string]string{}}
	vc.alloc0 = "alloc0"
	vc.declare("alloc0", "Int")
	vc.assert("(>= alloc0 1)")
	vc.heapSort["$alloc"] = "Int"
	return vc
}

func (vc *VC) declareGhosts(gs []Ghost, pkg *types.Package) {
	env := &SpecEnv{vc: vc, pkg: pkg}
	for _, g := range gs {
		t, err := env.resolveType(g.Type)
		if err != nil {
			vc.errorf("ghost %s: %v", g.Name, err)
			continue
		}
		n := q("ghost:" + g.Name)
		srt := vc.S.sortOf(t)
		vc.declare(n, srt)
		for _, c := range vc.S.typeInv(n, t, vc.alloc0, 0) {
			vc.assert(c)
		}
		vc.ghosts[g.Name] = vc.mkVal(n, t)
		vc.ghostByKey[srt] = append(vc.ghostByKey[srt], n)
		vc.consts = append(vc.consts, modelConst{n, srt, "ghost " + g.Name})
	}
}

// verifyFunc generates the obligations of one function against its contract.
func (e *Engine) verifyFunc(key string) (*VC, error) {
	fn := e.funcs[key]
	if fn == nil {
		return nil, fmt.Errorf("stale contract: function %s not found", key)
	}
	c := e.contracts.Funcs[key]
	vc := newVC(e, key, c)
	c.Used = true
	if c.Functional {
		for _, why := range e.notFunctional(fn) {
			vc.errorf("contract says functional, but the body %s", why)
		}
	}
	vc.pure = c.Pure
	fr := vc.newFrame(fn, "", 0, []string{key})
	entry := &state{reach: "true", heap: Heap{}}
	for _, p := range fn.Params {
		n := q("p:" + p.Name())
		srt := vc.S.sortOf(p.Type())
		vc.declare(n, srt)
		for _, inv := range vc.S.typeInv(n, p.Type(), vc.alloc0, 0) {
			vc.assert(inv)
		}
		v := vc.mkVal(n, p.Type())
		fr.vals[p] = v
		if p.Name() == "_" {
			continue
		}
		vc.params[p.Name()] = v
		vc.consts = append(vc.consts, modelConst{n, srt, "parameter " + p.Name()})
	}
	vc.declareGhosts(c.Ghosts, e.specPkg(fn))
	vc.entryHeap = entry.heap
	e.runInit(vc, fn, entry)
	env := vc.specEnv(fr, entry, nil)
	for _, r := range c.Requires {
		t, err := env.evalBool(r.Expr)
		if err != nil {
			vc.errorf("requires %s: %v", r.Name(), err)
			continue
		}
		vc.assert(t)
		if r.Kind == "assume" {
			vc.assumed["assumed axiom: "+r.Name()] = true
		}
	}
	// preconditions with ghosts hold for every value of the ghosts: also at the terms of the
	// `instantiate` clauses that can be evaluated in the entry state (one ghost at a time)
	{
		terms := map[string][]string{} // sort -> instantiation terms
		for _, x := range c.Instantiate {
			ienv := vc.specEnv(fr, entry, nil)
			v, err := ienv.eval(x)
			if err != nil || v.T == "" || v.Typ == nil {
				continue
			}
			srt := vc.S.sortOf(v.Typ)
			terms[srt] = append(terms[srt], v.T)
		}
		if len(terms) > 0 {
			// every combination of "the ghost itself" and the terms of its sort (bounded)
			combos := []map[string]string{{}}
			for _, g := range c.Ghosts {
				gv, ok := vc.ghosts[g.Name]
				if !ok {
					continue
				}
				cands := append([]string{""}, terms[vc.S.sortOf(gv.Typ)]...)
				var next []map[string]string
				for _, m := range combos {
					for _, t := range cands {
						n := map[string]string{}
						for k, v := range m {
							n[k] = v
						}
						if t != "" {
							n[g.Name] = t
						}
						next = append(next, n)
					}
				}
				if len(next) > 64 {
					next = next[:64]
				}
				combos = next
			}
			for _, m := range combos {
				if len(m) == 0 {
					continue
				}
				genv := vc.specEnv(fr, entry, nil)
				for k, t := range m {
					genv.vars[k] = Val{T: t, Typ: vc.ghosts[k].Typ}
				}
				for _, r := range c.Requires {
					if t, err := genv.evalBool(r.Expr); err == nil {
						vc.assert(t)
					}
				}
			}
		}
	}
	// vacuity canary: the precondition must be satisfiable
	vc.obls = append(vc.obls, &Obligation{ID: len(vc.obls), Func: key, Kind: "canary", Name: "precondition is satisfiable (must be refuted)",
		Prefix: len(vc.lines), Reach: "true", Goal: "false", ExpectFail: true})
	vc.entryHeap = entry.heap.clone()
	rets := vc.run(fr, *entry)
	var reaches []string
	for ri, r := range rets {
		reaches = append(reaches, r.reach)
		st := &state{reach: r.reach, heap: r.heap}
		penv := vc.specEnv(fr, st, nil)
		penv.vars = map[string]Val{}
		for k, v := range vc.params {
			penv.vars[k] = v
		}
		for k, v := range vc.ghosts {
			penv.vars[k] = v
		}
		// parameters in postconditions denote entry values
		res := packResults(r.vals, resultType(fn.Signature))
		bindResults(penv.vars, res, resultType(fn.Signature), fn.Signature)
		if fn.Signature.Results().Len() == 0 {
			delete(penv.vars, "result")
		}
		penv.fr = nil
		// a return inside an index loop may refer to the loop's current index as `idx`
		if rb := r.block; rb != nil {
			for _, b := range fn.Blocks {
				isHeader := false
				for _, p := range b.Preds {
					if isBackEdge(p, b) {
						isHeader = true
					}
				}
				inLoop := false
				if isHeader {
					for x := range loopBlocks(b) {
						if x != b && x.Dominates(rb) {
							inLoop = true // the return leaves the loop from inside its body
						}
					}
				}
				if inLoop {
					penv.fr, penv.at = fr, b
					if penv.locals == nil {
						penv.noLocals = true
					}
				}
			}
		}
		pos := vc.pos(fr, r.pos)
		for _, en := range c.Ensures {
			t, err := penv.evalBool(en.Expr)
			if err != nil {
				vc.errorf("ensures %s: %v", en.Name(), err)
				continue
			}
			nb := len(vc.obls)
			vc.oblige("post", fmt.Sprintf("postcondition at return %d: %s", ri, en.Name()), en.Props, pos, r.reach, t)
			if len(vc.obls) > nb {
				vc.obls[len(vc.obls)-1].retHeap = r.heap
				vc.obls[len(vc.obls)-1].retVals = r.vals
			}
		}
		vc.frameCheck(fr, c, st, ri, pos)
		vc.obls = append(vc.obls, &Obligation{ID: len(vc.obls), Func: key, Kind: "canary", Name: fmt.Sprintf("return %d is reachable under the precondition", ri),
			Pos: pos, Prefix: len(vc.lines), Reach: "true", Goal: not(r.reach), ExpectFail: true, ReachProbe: true, Allow: c.Unreachable})
		if c.HasPropagates {
			nres := fn.Signature.Results().Len()
			if nres > 0 && len(r.vals) == nres {
				own := r.vals[nres-1].T
				for _, pe := range r.errs {
					vc.oblige("err-propagation", fmt.Sprintf("an error returned by %s makes the function fail (return %d)", pe.what, ri), c.Propagates, pos, r.reach,
						fmt.Sprintf("(=> (and %s (not (= (itag %s) 0))) (not (= (itag %s) 0)))", pe.reach, pe.term, own))
				}
			}
		}
	}
	vc.obls = append(vc.obls, &Obligation{ID: len(vc.obls), Func: key, Kind: "canary", Name: "some return is reachable (must be refuted)",
		Prefix: len(vc.lines), Reach: "true", Goal: not(or(reaches...)), ExpectFail: true})
	return vc, nil
}

// frameGoals: for every heap key whose contents differ from the entry state, the cell at a fixed
// skolem reference (one per key, chosen before execution starts) that existed at entry equals the
// entry contents with the locations of the modifies clause overwritten by their current values.
// Checked at every return (the frame condition) and used as an automatic invariant of every loop.
type namedGoal struct{ key, goal string }

func (vc *VC) frameSkolem(key string) string {
	if s, ok := vc.frameSk[key]; ok {
		return s
	}
	s := q("frame.r:" + key)
	vc.pre = append(vc.pre, fmt.Sprintf("(declare-const %s Int)", s))
	vc.frameSk[key] = s
	return s
}

func (vc *VC) frameGoals(fr *frame, c *Contract, st *state) []namedGoal {
	if c == nil || c.ModAll {
		return nil
	}
	if vc.frameLocs == nil {
		pre := &state{reach: "true", heap: vc.entryHeap.clone()}
		env := vc.specEnv(fr, pre, nil)
		env.fr = nil
		vc.frameLocs = []modLoc{}
		for _, m := range c.Modifies {
			ls, err := env.modLocs(m)
			if err != nil {
				vc.errorf("modifies %s: %v", exprString(m), err)
				continue
			}
			vc.frameLocs = append(vc.frameLocs, ls...)
		}
	}
	var keys []string
	for k := range st.heap {
		keys = append(keys, k)
	}
	sort.Strings(keys)
	var goals []namedGoal
	for _, k := range keys {
		if k == "$alloc" || strings.HasPrefix(k, "IT:") {
			continue
		}
		final := st.heap[k]
		init := vc.heapGet(vc.entryHeap, k)
		if final == init {
			continue
		}
		if os.Getenv("GOVC_DEBUG_FRAME") != "" {
			fmt.Fprintf(os.Stderr, "frame-diff %s: %s vs %s\n", k, final, init)
		}
		expected := init
		for _, ml := range vc.frameLocs {
			if ml.key == k {
				expected = ml.overwrite(vc, expected, final)
			}
		}
		r0 := vc.frameSkolem(k)
		vc.instFrames(k, r0)
		goals = append(goals, namedGoal{k, fmt.Sprintf("(=> (< %s alloc0) (= (select %s %s) (select %s %s)))", r0, final, r0, expected, r0)})
	}
	return goals
}

func (vc *VC) frameCheck(fr *frame, c *Contract, st *state, ri int, pos string) {
	for _, g := range vc.frameGoals(fr, c, st) {
		vc.oblige("frame", fmt.Sprintf("frame at return %d: %s changes only where modifies allows", ri, g.key), nil, pos, st.reach, g.goal)
	}
}

type modLoc struct {
	key       string
	overwrite func(vc *VC, base, final string) string
}

// runInit executes the package initialiser symbolically so that package-level variables hold their
// initial values at function entry. Sound as long as no other function writes a global (checked by
// globalWrites, reported as an engine error of every function of the package).
func (e *Engine) runInit(vc *VC, fn *ssa.Function, st *state) {
	if fn.Pkg == nil {
		return
	}
	initFn := fn.Pkg.Func("init")
	if initFn == nil || len(initFn.Blocks) == 0 || fn == initFn {
		return
	}
	for _, w := range e.globalWrites(fn.Pkg) {
		vc.errorf("package-level variable written outside init: %s", w)
	}
	nobl, nerr := len(vc.obls), len(vc.errs)
	// package-level variables start zeroed
	var gnames []string
	for n := range fn.Pkg.Members {
		gnames = append(gnames, n)
	}
	sort.Strings(gnames)
	for _, n := range gnames {
		g, ok := fn.Pkg.Members[n].(*ssa.Global)
		if !ok {
			continue
		}
		pt := g.Type().Underlying().(*types.Pointer).Elem()
		if _, isArr := pt.Underlying().(*types.Array); isArr {
			continue
		}
		vc.store(st, &Loc{Kind: LCell, Ref: e.globalRef(g), Cell: pt}, vc.S.zero(pt))
	}
	// //go:embed string variables hold the contents of the named file of the package directory (the
	// compiler puts it there; the initialiser does not): a constant when the file is small, otherwise
	// an unknown string
	for name, content := range e.embeds(fn.Pkg) {
		g, ok := fn.Pkg.Members[name].(*ssa.Global)
		if !ok {
			continue
		}
		pt := g.Type().Underlying().(*types.Pointer).Elem()
		if b, isStr := pt.Underlying().(*types.Basic); !isStr || b.Kind() != types.String {
			continue
		}
		term := vc.freshConst("embed:"+name, "String")
		if content != nil && len(*content) <= 1024 {
			term = smtString(*content)
		}
		vc.store(st, &Loc{Kind: LCell, Ref: e.globalRef(g), Cell: pt}, term)
	}
	if g, ok := fn.Pkg.Members["init$guard"].(*ssa.Global); ok {
		// the initialiser has not run yet
		l := &Loc{Kind: LCell, Ref: e.globalRef(g), Cell: types.Typ[types.Bool]}
		vc.store(st, l, "false")
	}
	fr := vc.newFrame(initFn, "init.", 1, []string{"init"})
	rets := vc.run(fr, state{reach: "true", heap: st.heap})
	vc.obls = vc.obls[:nobl]
	if len(vc.errs) > nerr {
		// constructs of initialisers the engine does not model only make globals unconstrained
		vc.errs = vc.errs[:nerr]
	}
	if len(rets) == 1 {
		st.heap = rets[0].heap.clone()
	}
}

func (e *Engine) globalWrites(pkg *ssa.Package) []string {
	if w, ok := e.gwCache[pkg]; ok {
		return w
	}
	var out []string
	var rootGlobal func(v ssa.Value) *ssa.Global
	rootGlobal = func(v ssa.Value) *ssa.Global {
		switch x := v.(type) {
		case *ssa.Global:
			return x
		case *ssa.FieldAddr:
			return rootGlobal(x.X)
		case *ssa.IndexAddr:
			return rootGlobal(x.X)
		}
		return nil
	}
	var scan func(fn *ssa.Function)
	scan = func(fn *ssa.Function) {
		for _, b := range fn.Blocks {
			for _, ins := range b.Instrs {
				if s, ok := ins.(*ssa.Store); ok {
					if g := rootGlobal(s.Addr); g != nil && fn.Name() != "init" && !strings.HasPrefix(fn.Name(), "init#") {
						out = append(out, g.Name()+" in "+fn.Name())
					}
				}
			}
		}
		for _, af := range fn.AnonFuncs {
			scan(af)
		}
	}
	for _, m := range pkg.Members {
		if f, ok := m.(*ssa.Function); ok {
			scan(f)
		}
	}
	for _, fn := range e.funcs {
		if fn.Pkg == pkg {
			scan(fn)
		}
	}
	sort.Strings(out)
	e.gwCache[pkg] = out
	return out
}

// notFunctional: reasons why fn's result may depend on more than its arguments.
func (e *Engine) notFunctional(fn *ssa.Function) []string {
	var out []string
	for _, b := range fn.Blocks {
		for _, ins := range b.Instrs {
			switch x := ins.(type) {
			case *ssa.UnOp:
				if x.Op == token.MUL {
					if _, isAlloc := x.X.(*ssa.Alloc); !isAlloc {
						out = append(out, "loads from memory ("+x.String()+")")
					}
				}
			case *ssa.Lookup:
				if _, isMap := x.X.Type().Underlying().(*types.Map); isMap {
					out = append(out, "reads a map")
				}
			case *ssa.MapUpdate, *ssa.Range, *ssa.Go, *ssa.Defer:
				out = append(out, "uses "+x.String())
			case ssa.CallInstruction:
				cc := x.Common()
				if cc.IsInvoke() {
					out = append(out, "calls an interface method")
					continue
				}
				if _, ok := cc.Value.(*ssa.Builtin); ok {
					continue
				}
				callee := cc.StaticCallee()
				if callee == nil {
					out = append(out, "makes a dynamic call")
					continue
				}
				k := funcKey(callee)
				if e.isInterpreted(k) || callee.Blocks == nil {
					continue
				}
				if c := e.contractFor(k); c != nil && c.Functional {
					continue
				}
				out = append(out, "calls "+k+", which is not functional")
			}
		}
	}
	return out
}

// embeds returns the package-level variables carrying a //go:embed directive with the contents of
// the embedded file (nil when it cannot be read).
func (e *Engine) embeds(pkg *ssa.Package) map[string]*string {
	out := map[string]*string{}
	for _, tp := range e.tpkgs {
		if tp.Types != pkg.Pkg {
			continue
		}
		for _, f := range tp.Syntax {
			dir := filepath.Dir(e.fset.Position(f.Pos()).Filename)
			for _, d := range f.Decls {
				gd, ok := d.(*ast.GenDecl)
				if !ok || gd.Tok != token.VAR {
					continue
				}
				for _, sp := range gd.Specs {
					vs, ok := sp.(*ast.ValueSpec)
					if !ok || len(vs.Names) != 1 {
						continue
					}
					for _, doc := range []*ast.CommentGroup{vs.Doc, gd.Doc} {
						if doc == nil {
							continue
						}
						for _, c := range doc.List {
							if strings.HasPrefix(c.Text, "//go:embed ") {
								file := strings.TrimSpace(strings.TrimPrefix(c.Text, "//go:embed "))
								var content *string
								if b, err := os.ReadFile(filepath.Join(dir, file)); err == nil {
									sb := string(b)
									content = &sb
								}
								out[vs.Names[0].Name] = content
							}
						}
					}
				}
			}
		}
	}
	return out
}
