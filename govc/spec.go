package main

// Evaluation of contract expressions (Go expression syntax) to SMT terms.

import (
	"fmt"
	"go/ast"
	"go/constant"
	"go/token"
	"go/types"
	"strconv"
	"strings"

	"golang.org/x/tools/go/ssa"
)

type SpecEnv struct {
	vc         *VC
	fr         *frame
	at         *ssa.BasicBlock
	vars       map[string]Val
	oldVars    map[string]Val
	st         *state
	old        Heap
	contract   *Contract
	reach      string
	pkg        *types.Package
	inOld      bool
	macroDepth int
	noLocals   bool
	outermost  bool
	locals     map[string]Val
}

func (vc *VC) specEnv(fr *frame, st *state, at *ssa.BasicBlock) *SpecEnv {
	e := &SpecEnv{vc: vc, fr: fr, at: at, vars: map[string]Val{}, st: st, old: vc.entryHeap, contract: vc.contract, reach: st.reach, pkg: vc.eng.specPkg(fr.fn)}
	for k, v := range vc.params {
		e.vars[k] = v
	}
	for k, v := range vc.ghosts {
		e.vars[k] = v
	}
	e.oldVars = vc.params
	return e
}

func (e *SpecEnv) evalBool(x ast.Expr) (string, error) {
	v, err := e.eval(x)
	if err != nil {
		return "", err
	}
	if v.T == "" {
		return "", fmt.Errorf("expression is not a boolean term")
	}
	return v.T, nil
}

func (e *SpecEnv) heap() Heap {
	if e.inOld {
		return e.old
	}
	return e.st.heap
}

func (e *SpecEnv) curState() *state {
	if e.inOld {
		return &state{reach: e.reach, heap: e.old}
	}
	return e.st
}

func untyped(term string) Val { return Val{T: term} }

// loaded wraps a value read from memory inside a specification; it satisfies its type invariant.
func (e *SpecEnv) loaded(term string, t types.Type) Val {
	vc := e.vc
	switch t.Underlying().(type) {
	case *types.Pointer, *types.Map, *types.Slice, *types.Basic:
		cs := vc.S.typeInv(term, t, vc.allocTerm(e.curState().heap), 0)
		for _, c := range cs {
			vc.assume("true", c)
		}
	}
	return vc.mkVal(term, t)
}

func (e *SpecEnv) lookupDefine(name string) *Define {
	if e.contract != nil {
		if d, ok := e.contract.Defines[name]; ok {
			return d
		}
	}
	if d, ok := e.vc.eng.contracts.Defines[name]; ok {
		return d
	}
	return nil
}

func (e *SpecEnv) resolveType(x ast.Expr) (types.Type, error) {
	switch t := x.(type) {
	case *ast.Ident:
		if o := types.Universe.Lookup(t.Name); o != nil {
			if tn, ok := o.(*types.TypeName); ok {
				return tn.Type(), nil
			}
		}
		if e.pkg != nil {
			if o := e.pkg.Scope().Lookup(t.Name); o != nil {
				if tn, ok := o.(*types.TypeName); ok {
					return tn.Type(), nil
				}
			}
		}
		return nil, fmt.Errorf("unknown type %s", t.Name)
	case *ast.SelectorExpr:
		if id, ok := t.X.(*ast.Ident); ok {
			if p := e.findImport(id.Name); p != nil {
				if o := p.Scope().Lookup(t.Sel.Name); o != nil {
					if tn, ok := o.(*types.TypeName); ok {
						return tn.Type(), nil
					}
				}
			}
		}
		return nil, fmt.Errorf("unknown type %s", exprString(x))
	case *ast.StarExpr:
		el, err := e.resolveType(t.X)
		if err != nil {
			return nil, err
		}
		return types.NewPointer(el), nil
	case *ast.ArrayType:
		el, err := e.resolveType(t.Elt)
		if err != nil {
			return nil, err
		}
		return types.NewSlice(el), nil
	case *ast.MapType:
		k, err := e.resolveType(t.Key)
		if err != nil {
			return nil, err
		}
		v, err := e.resolveType(t.Value)
		if err != nil {
			return nil, err
		}
		return types.NewMap(k, v), nil
	case *ast.ParenExpr:
		return e.resolveType(t.X)
	}
	return nil, fmt.Errorf("unsupported type expression %s", exprString(x))
}

func (e *SpecEnv) findImport(name string) *types.Package {
	if e.pkg == nil {
		return nil
	}
	var found *types.Package
	seen := map[*types.Package]bool{}
	var walk func(p *types.Package, depth int)
	walk = func(p *types.Package, depth int) {
		if seen[p] || found != nil || depth > 3 {
			return
		}
		seen[p] = true
		for _, imp := range p.Imports() {
			if imp.Name() == name && depth == 0 {
				found = imp
				return
			}
		}
		for _, imp := range p.Imports() {
			walk(imp, depth+1)
			if found == nil && imp.Name() == name {
				found = imp
			}
		}
	}
	walk(e.pkg, 0)
	return found
}

func exprString(x ast.Expr) string {
	return types.ExprString(x)
}

func (e *SpecEnv) eval(x ast.Expr) (Val, error) {
	vc := e.vc
	switch t := x.(type) {
	case *ast.ParenExpr:
		return e.eval(t.X)
	case *ast.BasicLit:
		switch t.Kind {
		case token.INT:
			return untyped(t.Value), nil
		case token.STRING:
			s, err := strconv.Unquote(t.Value)
			if err != nil {
				return Val{}, err
			}
			return Val{T: smtString(s), Typ: types.Typ[types.String]}, nil
		}
		return Val{}, fmt.Errorf("unsupported literal %s", t.Value)
	case *ast.Ident:
		return e.evalIdent(t)
	case *ast.UnaryExpr:
		if t.Op == token.AND {
			// address of a field: &p.f
			if sel, ok := t.X.(*ast.SelectorExpr); ok {
				base, err := e.eval(sel.X)
				if err != nil {
					return Val{}, err
				}
				if base.Typ == nil || base.Loc == nil {
					return Val{}, fmt.Errorf("address of %s: base is not a pointer", exprString(t.X))
				}
				obj, index, _ := types.LookupFieldOrMethod(base.Typ, true, e.pkg, sel.Sel.Name)
				if obj == nil {
					obj, index = lookupFieldByName(base.Typ, sel.Sel.Name)
				}
				fv, isField := obj.(*types.Var)
				if !isField || len(index) != 1 {
					return Val{}, fmt.Errorf("address of %s: unsupported", exprString(t.X))
				}
				l := vc.extend(base.Loc, index[0])
				r := Val{Typ: types.NewPointer(fv.Type()), Loc: l}
				if len(l.Path) == 0 && l.Kind == LCell {
					r.T = l.Ref
				}
				return r, nil
			}
			return Val{}, fmt.Errorf("unsupported address-of %s", exprString(t.X))
		}
		v, err := e.eval(t.X)
		if err != nil {
			return Val{}, err
		}
		switch t.Op {
		case token.NOT:
			return Val{T: not(v.T), Typ: types.Typ[types.Bool]}, nil
		case token.SUB:
			return Val{T: "(- " + v.T + ")", Typ: v.Typ}, nil
		case token.AND:
			return v, nil // handled below (address-of needs the location, not the loaded value)
		}
		return Val{}, fmt.Errorf("unsupported unary %s", t.Op)
	case *ast.StarExpr:
		v, err := e.eval(t.X)
		if err != nil {
			return Val{}, err
		}
		if v.Loc == nil {
			return Val{}, fmt.Errorf("dereference of non-pointer %s", exprString(t.X))
		}
		term := vc.load(e.curState(), v.Loc)
		return e.loaded(term, vc.locType(v.Loc)), nil
	case *ast.BinaryExpr:
		return e.evalBinary(t)
	case *ast.SelectorExpr:
		return e.evalSelector(t)
	case *ast.IndexExpr:
		return e.evalIndex(t)
	case *ast.SliceExpr:
		s, err := e.eval(t.X)
		if err != nil {
			return Val{}, err
		}
		lo, hi := "0", "(str.len "+s.T+")"
		if t.Low != nil {
			v, err := e.eval(t.Low)
			if err != nil {
				return Val{}, err
			}
			lo = v.T
		}
		if t.High != nil {
			v, err := e.eval(t.High)
			if err != nil {
				return Val{}, err
			}
			hi = v.T
		}
		return Val{T: fmt.Sprintf("(str.substr %s %s (- %s %s))", s.T, lo, hi, lo), Typ: types.Typ[types.String]}, nil
	case *ast.CallExpr:
		return e.evalCall(t)
	case *ast.CompositeLit:
		typ, err := e.resolveType(t.Type)
		if err != nil {
			return Val{}, err
		}
		st, ok := typ.Underlying().(*types.Struct)
		if !ok {
			return Val{}, fmt.Errorf("composite literal of non-struct %v", typ)
		}
		fields := make([]string, st.NumFields())
		for i := range fields {
			fields[i] = vc.S.zero(st.Field(i).Type())
		}
		for i, el := range t.Elts {
			idx := i
			val := el
			if kv, ok := el.(*ast.KeyValueExpr); ok {
				name := kv.Key.(*ast.Ident).Name
				idx = -1
				for j := 0; j < st.NumFields(); j++ {
					if st.Field(j).Name() == name {
						idx = j
					}
				}
				if idx < 0 {
					return Val{}, fmt.Errorf("no field %s in %v", name, typ)
				}
				val = kv.Value
			}
			v, err := e.eval(val)
			if err != nil {
				return Val{}, err
			}
			ftyp := st.Field(idx).Type()
			if v.T == "nil" {
				v = vc.mkVal(vc.S.zero(ftyp), ftyp)
			}
			if _, fIface := ftyp.Underlying().(*types.Interface); fIface && v.Typ != nil {
				if _, vIface := v.Typ.Underlying().(*types.Interface); !vIface {
					v = Val{T: vc.box(e.curState(), v, v.Typ), Typ: ftyp}
				}
			}
			ft, _ := vc.firstClass(v)
			fields[idx] = ft
		}
		return Val{T: vc.S.mkStruct(typ, fields), Typ: typ}, nil
	}
	return Val{}, fmt.Errorf("unsupported expression %s (%T)", exprString(x), x)
}

func (e *SpecEnv) evalIdent(id *ast.Ident) (Val, error) {
	vc := e.vc
	switch id.Name {
	case "true", "false":
		return Val{T: id.Name, Typ: types.Typ[types.Bool]}, nil
	case "nil":
		return Val{T: "nil"}, nil
	}
	if id.Name == "idx" {
		// at a loop header: number of completed iterations; inside the body (postconditions of a return
		// inside the loop): the current index; outside any index loop: -1
		if e.at != nil && e.fr != nil {
			if phi, off, ok := loopCounter(e.at); ok {
				return Val{T: completedIters(e.fr.vals[phi].T, off), Typ: types.Typ[types.Int]}, nil
			}
		}
		return Val{T: "(- 1)", Typ: types.Typ[types.Int]}, nil
	}
	vars := e.vars
	if e.inOld && e.oldVars != nil {
		if v, ok := e.oldVars[id.Name]; ok {
			return v, nil
		}
	}
	if v, ok := vars[id.Name]; ok {
		return v, nil
	}
	if d := e.lookupDefine(id.Name); d != nil && len(d.Params) == 0 {
		return e.expand(d, nil)
	}
	if e.fr != nil && !e.noLocals {
		if v, ok := e.lookupLocal(id.Name); ok {
			return v, nil
		}
	}
	if e.pkg != nil {
		if o := e.pkg.Scope().Lookup(id.Name); o != nil {
			return e.objectVal(o)
		}
	}
	_ = vc
	return Val{}, fmt.Errorf("unknown identifier %s", id.Name)
}

func (e *SpecEnv) objectVal(o types.Object) (Val, error) {
	vc := e.vc
	switch c := o.(type) {
	case *types.Const:
		switch c.Val().Kind() {
		case constant.Int:
			return Val{T: c.Val().ExactString(), Typ: c.Type()}, nil
		case constant.String:
			return Val{T: smtString(constant.StringVal(c.Val())), Typ: c.Type()}, nil
		case constant.Bool:
			return Val{T: fmt.Sprint(constant.BoolVal(c.Val())), Typ: c.Type()}, nil
		}
	case *types.Var:
		if g := vc.eng.globalByObj(c); g != nil {
			ref := vc.eng.globalRef(g)
			l := &Loc{Kind: LCell, Ref: ref, Cell: c.Type()}
			return vc.mkVal(vc.load(e.curState(), l), c.Type()), nil
		}
	}
	return Val{}, fmt.Errorf("unsupported package-level object %s", o.Name())
}

// lookupLocal resolves a source variable of the function being verified at e.at.
func (e *SpecEnv) lookupLocal(name string) (Val, bool) {
	vc, fr := e.vc, e.fr
	if e.at != nil {
		for _, ins := range e.at.Instrs {
			phi, ok := ins.(*ssa.Phi)
			if !ok {
				break
			}
			if phi.Comment == name {
				return fr.vals[phi], true
			}
		}
	}
	// the variable in scope at the evaluation point: innermost declaring scope containing it
	var at token.Pos
	if e.at != nil {
		at = firstPos(e.at)
	}
	var obj *types.Var
	for i := range fr.vars[name] {
		o := fr.vars[name][i].obj
		if o == nil || o.Parent() == nil {
			continue
		}
		if at.IsValid() && at < token.Pos(1<<40) && !(o.Parent().Pos() <= at && at <= o.Parent().End()) {
			continue
		}
		if e.outermost {
			if obj == nil || o.Parent().Pos() < obj.Parent().Pos() {
				obj = o
			}
			continue
		}
		if obj == nil || o.Parent().Pos() > obj.Parent().Pos() || (o.Parent().Pos() == obj.Parent().Pos() && o.Pos() > obj.Pos() && o.Pos() <= at) {
			obj = o
		}
	}
	// a variable that lives in memory (address taken, captured by a closure): read its cell now
	for _, b := range fr.fn.Blocks {
		for _, ins := range b.Instrs {
			al, ok := ins.(*ssa.Alloc)
			if !ok || al.Comment != name {
				continue
			}
			if obj != nil && al.Pos() != obj.Pos() {
				continue
			}
			if av, defined := fr.vals[al]; defined && av.Loc != nil {
				return vc.mkVal(vc.load(e.curState(), av.Loc), vc.locType(av.Loc)), true
			}
		}
	}
	var best *varDef
	for i := range fr.vars[name] {
		d := &fr.vars[name][i]
		if obj != nil && d.obj != obj {
			continue
		}
		if d.isAddr {
			if _, defined := fr.vals[d.v]; defined {
				best = d
				break
			}
		}
	}
	for i := range fr.vars[name] {
		if best != nil && best.isAddr {
			break
		}
		d := &fr.vars[name][i]
		if obj != nil && d.obj != obj {
			continue
		}
		if _, defined := fr.vals[d.v]; !defined {
			if _, isParam := d.v.(*ssa.Parameter); !isParam {
				if _, isConst := d.v.(*ssa.Const); !isConst {
					continue
				}
			}
		}
		if e.at != nil && !d.block.Dominates(e.at) {
			continue
		}
		if best == nil || d.pos > best.pos && (e.at == nil || d.block != e.at) {
			best = d
		}
	}
	if best == nil {
		return Val{}, false
	}
	v := vc.get(fr, best.v)
	if best.isAddr {
		if v.Loc == nil {
			return Val{}, false
		}
		return vc.mkVal(vc.load(e.curState(), v.Loc), vc.locType(v.Loc)), true
	}
	return v, true
}

func (e *SpecEnv) expand(d *Define, args []Val) (Val, error) {
	if e.macroDepth > 20 {
		return Val{}, fmt.Errorf("define %s: expansion too deep", d.Name)
	}
	ne := *e
	ne.macroDepth++
	ne.vars = map[string]Val{}
	for k, v := range e.vars {
		ne.vars[k] = v
	}
	for i, p := range d.Params {
		if i < len(args) {
			ne.vars[p] = args[i]
		}
	}
	if e.inOld {
		// macro bodies refer to parameters through vars; keep old-parameter lookup for the rest
		ov := map[string]Val{}
		for k, v := range e.oldVars {
			ov[k] = v
		}
		for i, p := range d.Params {
			if i < len(args) {
				ov[p] = args[i]
			}
		}
		ne.oldVars = ov
	}
	return ne.eval(d.Body)
}

func (e *SpecEnv) evalBinary(t *ast.BinaryExpr) (Val, error) {
	vc := e.vc
	a, err := e.eval(t.X)
	if err != nil {
		return Val{}, err
	}
	b, err := e.eval(t.Y)
	if err != nil {
		return Val{}, err
	}
	boolT := types.Typ[types.Bool]
	switch t.Op {
	case token.LAND:
		return Val{T: and(a.T, b.T), Typ: boolT}, nil
	case token.LOR:
		return Val{T: or(a.T, b.T), Typ: boolT}, nil
	}
	typ := a.Typ
	if typ == nil || a.T == "nil" {
		typ = b.Typ
	}
	if a.T == "nil" && typ != nil {
		a = vc.mkVal(vc.S.zero(typ), typ)
	}
	if b.T == "nil" && typ != nil {
		b = vc.mkVal(vc.S.zero(typ), typ)
	}
	if typ == nil {
		// both untyped: integers
		typ = types.Typ[types.Int]
	}
	if isFloat(typ) {
		// allow integer literals against floats
		fix := func(v Val) Val {
			if v.Typ == nil {
				eb := "11 53"
				if strings.Contains(vc.S.sortOf(typ), "8 24") {
					eb = "8 24"
				}
				return Val{T: fmt.Sprintf("((_ to_fp %s) RNE %s.0)", eb, v.T), Typ: typ}
			}
			return v
		}
		a, b = fix(a), fix(b)
	}
	term, serr := vc.binop(t.Op, a, b, typ)
	if serr != "" {
		return Val{}, fmt.Errorf("%s in %s", serr, exprString(t))
	}
	switch t.Op {
	case token.EQL, token.NEQ, token.LSS, token.GTR, token.LEQ, token.GEQ:
		return Val{T: term, Typ: boolT}, nil
	}
	return Val{T: term, Typ: typ}, nil
}

// walk follows a field index path (with implicit dereferences) from v.
func (e *SpecEnv) fieldOf(v Val, idx int) (Val, error) {
	vc := e.vc
	t := v.Typ
	if p, ok := t.Underlying().(*types.Pointer); ok {
		if v.Loc == nil {
			return Val{}, fmt.Errorf("pointer without location")
		}
		l := *vc.extend(v.Loc, idx)
		ft := p.Elem().Underlying().(*types.Struct).Field(idx).Type()
		term := vc.load(e.curState(), &l)
		return e.loaded(term, ft), nil
	}
	st, ok := t.Underlying().(*types.Struct)
	if !ok {
		return Val{}, fmt.Errorf("field selection on %v", t)
	}
	return vc.mkVal(vc.S.proj(t, v.T, idx), st.Field(idx).Type()), nil
}

func (e *SpecEnv) evalSelector(t *ast.SelectorExpr) (Val, error) {
	if id, ok := t.X.(*ast.Ident); ok {
		if _, isVar := e.vars[id.Name]; !isVar {
			if d := e.lookupDefine(id.Name); d == nil {
				if _, isLocal := e.localExists(id.Name); !isLocal {
					if p := e.findImport(id.Name); p != nil {
						o := p.Scope().Lookup(t.Sel.Name)
						if o == nil {
							return Val{}, fmt.Errorf("%s.%s not found", id.Name, t.Sel.Name)
						}
						return e.objectVal(o)
					}
				}
			}
		}
	}
	v, err := e.eval(t.X)
	if err != nil {
		return Val{}, err
	}
	if v.Typ == nil {
		return Val{}, fmt.Errorf("selector on untyped %s", exprString(t.X))
	}
	obj, index, _ := types.LookupFieldOrMethod(v.Typ, true, e.pkg, t.Sel.Name)
	if obj == nil {
		// unexported field of another package: search by name
		obj, index = lookupFieldByName(v.Typ, t.Sel.Name)
		if obj == nil {
			return Val{}, fmt.Errorf("no field %s in %v", t.Sel.Name, v.Typ)
		}
	}
	if _, isField := obj.(*types.Var); !isField {
		return Val{}, fmt.Errorf("%s is not a field", t.Sel.Name)
	}
	cur := v
	for _, i := range index {
		cur, err = e.fieldOf(cur, i)
		if err != nil {
			return Val{}, err
		}
	}
	return cur, nil
}

func (e *SpecEnv) localExists(name string) (Val, bool) {
	if e.fr == nil {
		return Val{}, false
	}
	_, ok := e.fr.vars[name]
	return Val{}, ok
}

func lookupFieldByName(t types.Type, name string) (types.Object, []int) {
	if p, ok := t.Underlying().(*types.Pointer); ok {
		t = p.Elem()
	}
	st, ok := t.Underlying().(*types.Struct)
	if !ok {
		return nil, nil
	}
	for i := 0; i < st.NumFields(); i++ {
		if st.Field(i).Name() == name {
			return st.Field(i), []int{i}
		}
	}
	for i := 0; i < st.NumFields(); i++ {
		if st.Field(i).Embedded() {
			if o, idx := lookupFieldByName(st.Field(i).Type(), name); o != nil {
				return o, append([]int{i}, idx...)
			}
		}
	}
	return nil, nil
}

func (e *SpecEnv) evalIndex(t *ast.IndexExpr) (Val, error) {
	vc := e.vc
	c, err := e.eval(t.X)
	if err != nil {
		return Val{}, err
	}
	k, err := e.eval(t.Index)
	if err != nil {
		return Val{}, err
	}
	if c.Typ == nil {
		return Val{}, fmt.Errorf("index on untyped value")
	}
	switch u := c.Typ.Underlying().(type) {
	case *types.Map:
		_, val := vc.mapLookup(e.curState(), u, c.T, k.T)
		return e.loaded(val, u.Elem()), nil
	case *types.Slice:
		if isByteSlice(c.Typ) {
			return Val{}, fmt.Errorf("indexing bytes not supported")
		}
		inner := vc.sel(e.curState(), vc.elemKey(u.Elem()), "(sarr "+c.T+")")
		return e.loaded(fmt.Sprintf("(select %s %s)", inner, k.T), u.Elem()), nil
	}
	return Val{}, fmt.Errorf("index on %v", c.Typ)
}

func (e *SpecEnv) evalArgs(args []ast.Expr) ([]Val, error) {
	var r []Val
	for _, a := range args {
		v, err := e.eval(a)
		if err != nil {
			return nil, err
		}
		r = append(r, v)
	}
	return r, nil
}

func (e *SpecEnv) evalCall(t *ast.CallExpr) (Val, error) {
	vc := e.vc
	switch t.Fun.(type) {
	case *ast.ArrayType, *ast.StarExpr, *ast.MapType, *ast.ParenExpr:
		if typ, err := e.resolveType(t.Fun); err == nil && len(t.Args) == 1 {
			v, err := e.eval(t.Args[0])
			if err != nil {
				return Val{}, err
			}
			return e.convertTo(v, typ)
		}
	}
	boolT := types.Typ[types.Bool]
	intT := types.Typ[types.Int]
	strT := types.Typ[types.String]
	if id, ok := t.Fun.(*ast.Ident); ok {
		if d := e.lookupDefine(id.Name); d != nil {
			args, err := e.evalArgs(t.Args)
			if err != nil {
				return Val{}, err
			}
			return e.expand(d, args)
		}
		switch id.Name {
		case "old":
			ne := *e
			ne.inOld = true
			return ne.eval(t.Args[0])
		case "entry":
			// value of the expression in the state in which the enclosing loop was entered
			if e.fr == nil || e.at == nil || e.fr.loopEntry[e.at] == nil {
				return Val{}, fmt.Errorf("entry() outside a loop invariant")
			}
			ne := *e
			ne.st = &state{reach: e.reach, heap: e.fr.loopEntry[e.at]}
			return ne.eval(t.Args[0])
		case "outer":
			// the outermost local variable of that name (for names shadowed inside the loop body)
			if aid, ok := t.Args[0].(*ast.Ident); ok && e.fr != nil {
				ne := *e
				ne.outermost = true
				if v, ok := ne.lookupLocal(aid.Name); ok {
					return v, nil
				}
			}
			return Val{}, fmt.Errorf("outer(): no such local variable")
		case "is", "as", "zero", "isnew":
			// second (or only) argument is a type
		default:
			goto general
		}
		switch id.Name {
		case "zero":
			typ, err := e.resolveType(t.Args[0])
			if err != nil {
				return Val{}, err
			}
			return vc.mkVal(vc.S.zero(typ), typ), nil
		case "is", "as":
			v, err := e.eval(t.Args[0])
			if err != nil {
				return Val{}, err
			}
			typ, err := e.resolveType(t.Args[1])
			if err != nil {
				return Val{}, err
			}
			if id.Name == "is" {
				return Val{T: fmt.Sprintf("(= (itag %s) %d)", v.T, vc.S.tag(typ)), Typ: boolT}, nil
			}
			un := fmt.Sprintf("(%s (iid %s))", vc.S.unboxFn(typ), v.T)
			// an unboxed value satisfies its type invariant whenever the interface holds that type
			for _, c := range vc.S.typeInv(un, typ, vc.allocTerm(e.curState().heap), 0) {
				vc.assume(fmt.Sprintf("(= (itag %s) %d)", v.T, vc.S.tag(typ)), c)
			}
			return vc.mkVal(un, typ), nil
		}
	}
general:
	if id, ok := t.Fun.(*ast.Ident); ok {
		args, err := e.evalArgs(t.Args)
		if err != nil {
			return Val{}, err
		}
		need := func(n int) error {
			if len(args) != n {
				return fmt.Errorf("%s expects %d arguments", id.Name, n)
			}
			return nil
		}
		switch id.Name {
		case "imp":
			if err := need(2); err != nil {
				return Val{}, err
			}
			return Val{T: "(=> " + args[0].T + " " + args[1].T + ")", Typ: boolT}, nil
		case "iff":
			if err := need(2); err != nil {
				return Val{}, err
			}
			return Val{T: "(= " + args[0].T + " " + args[1].T + ")", Typ: boolT}, nil
		case "ite":
			if err := need(3); err != nil {
				return Val{}, err
			}
			typ := args[1].Typ
			if typ == nil {
				typ = args[2].Typ
			}
			a1, _ := vc.firstClass(args[1])
			a2, _ := vc.firstClass(args[2])
			if typ != nil {
				return vc.mkVal(fmt.Sprintf("(ite %s %s %s)", args[0].T, a1, a2), typ), nil
			}
			return untyped(fmt.Sprintf("(ite %s %s %s)", args[0].T, a1, a2)), nil
		case "has":
			if err := need(2); err != nil {
				return Val{}, err
			}
			m, ok := args[0].Typ.Underlying().(*types.Map)
			if !ok {
				return Val{}, fmt.Errorf("has on %v", args[0].Typ)
			}
			h, _ := vc.mapLookup(e.curState(), m, args[0].T, args[1].T)
			return Val{T: h, Typ: boolT}, nil
		case "len":
			if err := need(1); err != nil {
				return Val{}, err
			}
			a := args[0]
			if a.Typ == nil {
				return Val{}, fmt.Errorf("len of untyped")
			}
			if isDiagnostics(a.Typ) {
				return Val{T: "(dn " + a.T + ")", Typ: intT}, nil
			}
			switch u := a.Typ.Underlying().(type) {
			case *types.Basic:
				return Val{T: "(str.len " + a.T + ")", Typ: intT}, nil
			case *types.Slice:
				if isByteSlice(a.Typ) {
					return Val{T: "(str.len (bstr " + a.T + "))", Typ: intT}, nil
				}
				return Val{T: "(slen " + a.T + ")", Typ: intT}, nil
			case *types.Map:
				return Val{T: vc.mapLen(e.curState(), u, a.T), Typ: intT}, nil
			}
			return Val{}, fmt.Errorf("len of %v", a.Typ)
		case "member", "memberN":
			// memberN(s, n, k): k occurs among s[0..n) — uninterpreted, unfolded one level at n;
			// member(s, k) = memberN(s, len(s), k)
			var sl, n, k Val
			if id.Name == "member" {
				if err := need(2); err != nil {
					return Val{}, err
				}
				sl, k = args[0], args[1]
				n = Val{T: "(slen " + sl.T + ")"}
			} else {
				if err := need(3); err != nil {
					return Val{}, err
				}
				sl, n, k = args[0], args[1], args[2]
			}
			st, ok := sl.Typ.Underlying().(*types.Slice)
			if !ok || isByteSlice(sl.Typ) {
				return Val{}, fmt.Errorf("member on %v", sl.Typ)
			}
			return Val{T: vc.memberN(e.curState(), st.Elem(), sl.T, n.T, k.T), Typ: boolT}, nil
		case "first", "second", "third":
			if err := need(1); err != nil {
				return Val{}, err
			}
			i := map[string]int{"first": 0, "second": 1, "third": 2}[id.Name]
			if i >= len(args[0].Tuple) {
				return Val{}, fmt.Errorf("%s of non-tuple", id.Name)
			}
			return args[0].Tuple[i], nil
		case "box":
			if err := need(1); err != nil {
				return Val{}, err
			}
			return Val{T: vc.box(e.curState(), args[0], args[0].Typ), Typ: types.NewInterfaceType(nil, nil)}, nil
		case "dinsert":
			if err := need(2); err != nil {
				return Val{}, err
			}
			x := args[1].T
			if args[1].Typ != nil {
				if _, isI := args[1].Typ.Underlying().(*types.Interface); !isI {
					x = vc.box(e.curState(), args[1], args[1].Typ)
				}
			}
			return Val{T: dinsert(args[0].T, x), Typ: args[0].Typ}, nil
		case "dhas":
			if err := need(2); err != nil {
				return Val{}, err
			}
			x := args[1].T
			if args[1].Typ != nil {
				if _, isI := args[1].Typ.Underlying().(*types.Interface); !isI {
					x = vc.box(e.curState(), args[1], args[1].Typ)
				}
			}
			return Val{T: fmt.Sprintf("(select (dset %s) %s)", args[0].T, x), Typ: boolT}, nil
		case "fresh":
			if err := need(1); err != nil {
				return Val{}, err
			}
			r, ok := vc.firstClass(args[0])
			if !ok {
				return Val{}, fmt.Errorf("fresh of interior pointer")
			}
			if s, isSl := args[0].Typ.Underlying().(*types.Slice); isSl && s != nil {
				r = "(sarr " + r + ")"
			}
			oldAlloc := vc.alloc0
			if e.old != nil {
				oldAlloc = vc.allocTerm(e.old)
			}
			return Val{T: fmt.Sprintf("(>= %s %s)", r, oldAlloc), Typ: boolT}, nil
		case "done":
			if err := need(1); err != nil {
				return Val{}, err
			}
			return e.evalDone(args[0])
		case "strcontains":
			return Val{T: "(str.contains " + args[0].T + " " + args[1].T + ")", Typ: boolT}, nil
		case "prefix":
			return Val{T: "(str.prefixof " + args[1].T + " " + args[0].T + ")", Typ: boolT}, nil
		case "suffix":
			return Val{T: "(str.suffixof " + args[1].T + " " + args[0].T + ")", Typ: boolT}, nil
		case "indexof":
			return Val{T: "(str.indexof " + args[0].T + " " + args[1].T + " 0)", Typ: intT}, nil
		case "replacefirst":
			return Val{T: "(str.replace " + args[0].T + " " + args[1].T + " " + args[2].T + ")", Typ: strT}, nil
		case "replaceall":
			return Val{T: "(str.replace_all " + args[0].T + " " + args[1].T + " " + args[2].T + ")", Typ: strT}, nil
		case "isnilslice":
			if isByteSlice(args[0].Typ) {
				return Val{T: "(bnil " + args[0].T + ")", Typ: boolT}, nil
			}
			return Val{T: "(= (sarr " + args[0].T + ") 0)", Typ: boolT}, nil
		case "bytestr":
			return Val{T: "(bstr " + args[0].T + ")", Typ: strT}, nil
		case "string":
			if args[0].Typ != nil && isByteSlice(args[0].Typ) {
				return Val{T: "(bstr " + args[0].T + ")", Typ: strT}, nil
			}
			return Val{T: args[0].T, Typ: strT}, nil
		case "fpzero":
			return Val{T: "(fp.isZero " + args[0].T + ")", Typ: boolT}, nil
		case "fpeq":
			return Val{T: "(fp.eq " + args[0].T + " " + args[1].T + ")", Typ: boolT}, nil
		case "fpnan":
			return Val{T: "(fp.isNaN " + args[0].T + ")", Typ: boolT}, nil
		case "same":
			// bitwise identical (SMT equality) — used for floats where == is fp.eq
			return Val{T: "(= " + args[0].T + " " + args[1].T + ")", Typ: boolT}, nil
		}
		// conversion T(x) with a universe or package type
		if typ, err := e.resolveType(id); err == nil && len(args) == 1 {
			return e.convertTo(args[0], typ)
		}
		if sf, ok := vc.eng.contracts.SpecFuncs[id.Name]; ok {
			rt, err := e.resolveType(sf.Result)
			if err != nil {
				return Val{}, err
			}
			for i := range args {
				if i < len(sf.Params) && (args[i].Typ == nil) {
					if pt, err := e.resolveType(sf.Params[i]); err == nil {
						if args[i].T == "nil" {
							args[i] = vc.mkVal(vc.S.zero(pt), pt)
						} else {
							args[i] = vc.mkVal(args[i].T, pt)
						}
					}
				}
			}
			return vc.ufApply(e.curState(), "spec."+sf.Name, args, rt, "spec"), nil
		}
		if e.pkg != nil {
			if fo, ok := e.pkg.Scope().Lookup(id.Name).(*types.Func); ok {
				return e.callFunc(vc.eng.prog.FuncValue(fo), fo, args)
			}
		}
		return Val{}, fmt.Errorf("unknown spec function %s", id.Name)
	}
	// qualified or method call
	sel, ok := t.Fun.(*ast.SelectorExpr)
	if !ok {
		return Val{}, fmt.Errorf("unsupported call %s", exprString(t))
	}
	args, err := e.evalArgs(t.Args)
	if err != nil {
		return Val{}, err
	}
	if id, ok := sel.X.(*ast.Ident); ok {
		if _, isVar := e.vars[id.Name]; !isVar && e.lookupDefine(id.Name) == nil {
			if _, isLocal := e.localExists(id.Name); !isLocal {
				if p := e.findImport(id.Name); p != nil {
					o := p.Scope().Lookup(sel.Sel.Name)
					switch oo := o.(type) {
					case *types.Func:
						return e.callFunc(vc.eng.prog.FuncValue(oo), oo, args)
					case *types.TypeName:
						if len(args) == 1 {
							return e.convertTo(args[0], oo.Type())
						}
					}
					return Val{}, fmt.Errorf("%s.%s is not a function", id.Name, sel.Sel.Name)
				}
			}
		}
	}
	recv, err := e.eval(sel.X)
	if err != nil {
		return Val{}, err
	}
	if recv.Typ == nil {
		return Val{}, fmt.Errorf("method call on untyped value")
	}
	obj, index, _ := types.LookupFieldOrMethod(recv.Typ, true, e.pkg, sel.Sel.Name)
	fn, ok := obj.(*types.Func)
	if !ok {
		return Val{}, fmt.Errorf("no method %s on %v", sel.Sel.Name, recv.Typ)
	}
	cur := recv
	for _, i := range index[:len(index)-1] {
		// keep embedded struct values addressable: walk by location where possible
		if p, ok := cur.Typ.Underlying().(*types.Pointer); ok && cur.Loc != nil {
			if stt, ok := p.Elem().Underlying().(*types.Struct); ok {
				ft := stt.Field(i).Type()
				if _, fieldIsPtr := ft.Underlying().(*types.Pointer); !fieldIsPtr {
					if _, fieldIsStruct := ft.Underlying().(*types.Struct); fieldIsStruct {
						cur = Val{Typ: types.NewPointer(ft), Loc: vc.extend(cur.Loc, i)}
						continue
					}
				}
			}
		}
		cur, err = e.fieldOf(cur, i)
		if err != nil {
			return Val{}, err
		}
	}
	if _, isIface := cur.Typ.Underlying().(*types.Interface); isIface {
		key := types.TypeString(cur.Typ, shortQual) + "." + fn.Name()
		sig := fn.Type().(*types.Signature)
		args = e.coerceArgs(args, sig, false)
		return vc.ufApply(e.curState(), key, append([]Val{cur}, args...), resultType(sig), "spec"), nil
	}
	sfn := vc.eng.prog.FuncValue(fn)
	// adjust receiver: method wants pointer or value
	sig := fn.Type().(*types.Signature)
	_, wantPtr := sig.Recv().Type().(*types.Pointer)
	_, havePtr := cur.Typ.Underlying().(*types.Pointer)
	if wantPtr && !havePtr {
		return Val{}, fmt.Errorf("method %s needs addressable receiver", fn.Name())
	}
	if !wantPtr && havePtr {
		term := vc.load(e.curState(), cur.Loc)
		cur = vc.mkVal(term, vc.locType(cur.Loc))
	}
	return e.callFunc(sfn, fn, append([]Val{cur}, args...))
}

// coerceArgs gives untyped arguments (nil, integer literals) the parameter type and boxes
// concrete values passed for interface parameters.
func (e *SpecEnv) coerceArgs(args []Val, sig *types.Signature, hasRecv bool) []Val {
	vc := e.vc
	out := make([]Val, len(args))
	for i, a := range args {
		out[i] = a
		pi := i
		if hasRecv {
			pi = i - 1
		}
		if pi < 0 || pi >= sig.Params().Len() {
			continue
		}
		pt := sig.Params().At(pi).Type()
		if sig.Variadic() && pi == sig.Params().Len()-1 {
			continue
		}
		if a.Typ == nil {
			if a.T == "nil" {
				out[i] = vc.mkVal(vc.S.zero(pt), pt)
			} else {
				out[i] = vc.mkVal(a.T, pt)
			}
			continue
		}
		if _, pIface := pt.Underlying().(*types.Interface); pIface {
			if _, aIface := a.Typ.Underlying().(*types.Interface); !aIface {
				out[i] = Val{T: vc.box(e.curState(), a, a.Typ), Typ: pt}
			}
		}
	}
	return out
}

func resultType(sig *types.Signature) types.Type {
	if sig.Results().Len() == 1 {
		return sig.Results().At(0).Type()
	}
	return sig.Results()
}

func (e *SpecEnv) convertTo(v Val, typ types.Type) (Val, error) {
	vc := e.vc
	if v.Typ == nil {
		if isFloat(typ) {
			eb := "11 53"
			if strings.Contains(vc.S.sortOf(typ), "8 24") {
				eb = "8 24"
			}
			return Val{T: fmt.Sprintf("((_ to_fp %s) RNE %s.0)", eb, v.T), Typ: typ}, nil
		}
		return vc.mkVal(v.T, typ), nil
	}
	r, serr := vc.convert(v, v.Typ, typ)
	if serr != "" {
		cv := vc.changeType(v, v.Typ, typ)
		return cv, nil
	}
	return vc.mkVal(r, typ), nil
}

// callFunc applies a function inside a specification: interpreted externals, uninterpreted
// externals, or pure contracted functions (fresh result constrained by the contract).
func (e *SpecEnv) callFunc(sfn *ssa.Function, fn *types.Func, args []Val) (Val, error) {
	vc := e.vc
	if sfn == nil {
		return Val{}, fmt.Errorf("no SSA function for %s", fn.FullName())
	}
	// unwrap promoted-method wrappers is not needed: FuncValue returns the declared method
	key := funcKey(sfn)
	sig := sfn.Signature
	rt := resultType(sig)
	st := e.curState()
	args = e.coerceArgs(args, sig, sig.Recv() != nil)
	if r, ok := vc.interpretedSpec(key, args, rt, st); ok {
		return r, nil
	}
	if c := vc.eng.contractFor(key); c != nil && !c.Extern && !c.Trusted {
		if !c.Pure {
			return Val{}, fmt.Errorf("specification calls %s, which is not marked pure", key)
		}
		memo := key + "(" + valsKey(args) + ")@" + heapKey(st.heap)
		if v, ok := vc.eng.specMemo[vc][memo]; ok {
			return v, nil
		}
		var res Val
		if c.Functional || c.Deterministic {
			res = vc.ufApply(st, key, args, rt, "spec:"+key)
		} else {
			res = vc.freshResult(st, rt, "spec:"+key)
		}
		sub := &SpecEnv{vc: vc, vars: map[string]Val{}, st: st, old: st.heap, contract: c, reach: e.reach, pkg: vc.eng.specPkg(sfn)}
		for i, p := range sfn.Params {
			if i < len(args) {
				sub.vars[p.Name()] = args[i]
			}
		}
		sub.oldVars = sub.vars
		var pre []string
		for _, r := range c.Requires {
			t, err := sub.evalBool(r.Expr)
			if err != nil {
				return Val{}, fmt.Errorf("requires of %s: %v", key, err)
			}
			pre = append(pre, t)
		}
		bindResults(sub.vars, res, rt, sig)
		// the callee's ghosts: the caller's ghost of the same name, if any (an instance of the
		// universally quantified postcondition); clauses about other ghosts are not instantiated
		for _, g := range c.Ghosts {
			if gv, ok := vc.ghosts[g.Name]; ok {
				sub.vars[g.Name] = gv
			}
		}
		for _, en := range c.Ensures {
			t, err := sub.evalBool(en.Expr)
			if err != nil {
				if len(c.Ghosts) > 0 && strings.Contains(err.Error(), "unknown identifier") {
					continue
				}
				return Val{}, fmt.Errorf("ensures of %s: %v", key, err)
			}
			vc.assume(and(pre...), t)
		}
		if vc.eng.specMemo[vc] == nil {
			vc.eng.specMemo[vc] = map[string]Val{}
		}
		vc.eng.specMemo[vc][memo] = res
		c.Used = true
		return res, nil
	}
	if c := vc.eng.contractFor(key); c != nil {
		vc.assumed["assumed contract: "+key] = true
		res := vc.ufApply(st, key, args, rt, "spec")
		// instantiate the assumed postconditions for this application (not for applications that occur
		// inside those postconditions themselves)
		if vc.specInst == 0 && len(c.Ensures) > 0 && len(c.Modifies) == 0 && !c.ModAll {
			vc.specInst++
			sub := &SpecEnv{vc: vc, vars: map[string]Val{}, st: st, old: st.heap, contract: c, reach: e.reach, pkg: vc.eng.specPkg(sfn)}
			names := c.Params
			if len(sfn.Params) > 0 {
				names = nil
				for _, p := range sfn.Params {
					names = append(names, p.Name())
				}
			}
			for i, n := range names {
				if i < len(args) && n != "_" {
					sub.vars[n] = args[i]
				}
			}
			sub.oldVars = sub.vars
			bindResults(sub.vars, res, rt, sig)
			for _, en := range c.Ensures {
				if t, err := sub.evalBool(en.Expr); err == nil {
					vc.assume("true", t)
				}
			}
			vc.specInst--
		}
		return res, nil
	}
	if sfn.Blocks != nil && (sfn.Synthetic != "" || isTrivialGetter(sfn)) {
		// small package-local helper without contract: execute it symbolically (read-only)
		nf := vc.newFrame(sfn, fmt.Sprintf("spec.%s$%d.", sfn.Name(), vc.nfresh), 1, []string{key})
		vc.nfresh++
		for i, p := range sfn.Params {
			if i < len(args) {
				nf.vals[p] = args[i]
			}
		}
		nobl := len(vc.obls)
		tmp := state{reach: e.reach, heap: st.heap.clone()}
		rets := vc.run(nf, tmp)
		vc.obls = vc.obls[:nobl] // panics inside a specification are not obligations
		r := vc.mergeReturns(rets, rt, "spec", &tmp)
		return r, nil
	}
	vc.assumed["uninterpreted: "+key] = true
	return vc.ufApply(st, key, args, rt, "spec"), nil
}

func isTrivialGetter(fn *ssa.Function) bool {
	n := 0
	for _, b := range fn.Blocks {
		n += len(b.Instrs)
		for _, p := range b.Preds {
			if isBackEdge(p, b) {
				return false
			}
		}
	}
	return n < 60
}

func valsKey(vs []Val) string {
	var s []string
	for _, v := range vs {
		if v.Loc != nil {
			s = append(s, v.Loc.Ref+fmt.Sprint(v.Loc.Path))
		} else {
			s = append(s, v.T)
		}
	}
	return strings.Join(s, ",")
}

func heapKey(h Heap) string {
	var ks []string
	for k, v := range h {
		ks = append(ks, k+"="+v)
	}
	sortStrings(ks)
	return strings.Join(ks, ";")
}

func dinsert(d, x string) string {
	return fmt.Sprintf("(mkDiags (store (dset %s) %s true) (+ (dn %s) (ite (select (dset %s) %s) 0 1)))", d, x, d, d, x)
}

// evalDone: has iteration j of the innermost enclosing loop at e.at completed?
func (e *SpecEnv) evalDone(j Val) (Val, error) {
	vc := e.vc
	boolT := types.Typ[types.Bool]
	if e.at == nil {
		return Val{}, fmt.Errorf("done() outside loop invariant")
	}
	if phi, off, ok := loopCounter(e.at); ok {
		cur := completedIters(e.fr.vals[phi].T, off)
		return Val{T: fmt.Sprintf("(and (<= 0 %s) (< %s %s))", j.T, j.T, cur), Typ: boolT}, nil
	}
	for _, ins := range e.at.Instrs {
		if nx, ok := ins.(*ssa.Next); ok {
			if r, ok := nx.Iter.(*ssa.Range); ok {
				it := e.fr.iters[r]
				P := vc.heapGetOr(e.st.heap, it.key)
				return Val{T: fmt.Sprintf("(select %s %s)", P, j.T), Typ: boolT}, nil
			}
		}
	}
	return Val{}, fmt.Errorf("done(): loop has no range index or iterator")
}

// havocLoc registers the locations denoted by a modifies expression in chains: the cell
// contents at those locations are taken from a fresh array.
func (e *SpecEnv) havocLoc(x ast.Expr, chains map[string]string) error {
	vc := e.vc
	locs, err := e.modLocs(x)
	if err != nil {
		return err
	}
	for _, ml := range locs {
		base, ok := chains[ml.key]
		if !ok {
			base = vc.heapGet(e.st.heap, ml.key)
		}
		src := vc.freshConst("any:"+ml.key, vc.heapSort[ml.key])
		chains[ml.key] = ml.overwrite(vc, base, src)
	}
	return nil
}

func cellLoc(vc *VC, l *Loc) modLoc {
	// intermediate terms are named: nested overwrites of the same key would otherwise grow exponentially
	if l.Kind == LCell {
		key := vc.cellKey(l.Cell)
		lc := *l
		return modLoc{key: key, overwrite: func(vc *VC, base, src string) string {
			cs := vc.S.sortOf(lc.Cell)
			srcCell := vc.define("owsrc", cs, "(select "+src+" "+lc.Ref+")")
			baseCell := vc.define("owbase", cs, "(select "+base+" "+lc.Ref+")")
			nv, _ := vc.S.projPath(lc.Cell, srcCell, lc.Path)
			cell := vc.S.update(lc.Cell, baseCell, lc.Path, nv)
			return vc.define("ow", vc.heapSort[key], fmt.Sprintf("(store %s %s %s)", base, lc.Ref, cell))
		}}
	}
	key := vc.elemKey(l.Cell)
	lc := *l
	return modLoc{key: key, overwrite: func(vc *VC, base, src string) string {
		cs := vc.S.sortOf(lc.Cell)
		srcCell := vc.define("owsrc", cs, fmt.Sprintf("(select (select %s %s) %s)", src, lc.Ref, lc.Idx))
		baseCell := vc.define("owbase", cs, fmt.Sprintf("(select (select %s %s) %s)", base, lc.Ref, lc.Idx))
		nv, _ := vc.S.projPath(lc.Cell, srcCell, lc.Path)
		cell := vc.S.update(lc.Cell, baseCell, lc.Path, nv)
		return vc.define("ow", vc.heapSort[key], fmt.Sprintf("(store %s %s (store (select %s %s) %s %s))", base, lc.Ref, base, lc.Ref, lc.Idx, cell))
	}}
}

// modLocs resolves a modifies expression (evaluated in e's state) to heap locations.
func (e *SpecEnv) modLocs(x ast.Expr) ([]modLoc, error) {
	vc := e.vc
	switch t := x.(type) {
	case *ast.ParenExpr:
		return e.modLocs(t.X)
	case *ast.StarExpr:
		v, err := e.eval(t.X)
		if err != nil {
			return nil, err
		}
		if v.Loc == nil {
			return nil, fmt.Errorf("modifies *%s: not a pointer", exprString(t.X))
		}
		return []modLoc{cellLoc(vc, v.Loc)}, nil
	case *ast.IndexExpr:
		c, err := e.eval(t.X)
		if err != nil {
			return nil, err
		}
		star := false
		if id, ok := t.Index.(*ast.Ident); ok && id.Name == "_" {
			star = true
		}
		var kt string
		if !star {
			k, err := e.eval(t.Index)
			if err != nil {
				return nil, err
			}
			kt = k.T
		}
		if c.Typ == nil {
			return nil, fmt.Errorf("modifies index on untyped value")
		}
		switch u := c.Typ.Underlying().(type) {
		case *types.Map:
			d, v := vc.mapKeysOf(u)
			ref := c.T
			mk := func(key string) modLoc {
				return modLoc{key: key, overwrite: func(vc *VC, base, src string) string {
					if star {
						return vc.define("ow", vc.heapSort[key], fmt.Sprintf("(store %s %s (select %s %s))", base, ref, src, ref))
					}
					return vc.define("ow", vc.heapSort[key], fmt.Sprintf("(store %s %s (store (select %s %s) %s (select (select %s %s) %s)))", base, ref, base, ref, kt, src, ref, kt))
				}}
			}
			return []modLoc{mk(d), mk(v)}, nil
		case *types.Slice:
			if isByteSlice(c.Typ) {
				return nil, fmt.Errorf("modifies on byte slice")
			}
			key := vc.elemKey(u.Elem())
			ref := "(sarr " + c.T + ")"
			return []modLoc{{key: key, overwrite: func(vc *VC, base, src string) string {
				if star {
					return vc.define("ow", vc.heapSort[key], fmt.Sprintf("(store %s %s (select %s %s))", base, ref, src, ref))
				}
				return vc.define("ow", vc.heapSort[key], fmt.Sprintf("(store %s %s (store (select %s %s) %s (select (select %s %s) %s)))", base, ref, base, ref, kt, src, ref, kt))
			}}}, nil
		}
		return nil, fmt.Errorf("modifies index on %v", c.Typ)
	case *ast.SelectorExpr:
		base, err := e.eval(t.X)
		if err != nil {
			return nil, err
		}
		if base.Typ == nil {
			return nil, fmt.Errorf("modifies %s: untyped base", exprString(x))
		}
		obj, index, _ := types.LookupFieldOrMethod(base.Typ, true, e.pkg, t.Sel.Name)
		if obj == nil {
			obj, index = lookupFieldByName(base.Typ, t.Sel.Name)
		}
		if obj == nil || base.Loc == nil {
			return nil, fmt.Errorf("modifies %s: not a field of a pointer", exprString(x))
		}
		cur := base
		for _, i := range index[:len(index)-1] {
			cur, err = e.fieldOf(cur, i)
			if err != nil {
				return nil, err
			}
		}
		if cur.Loc == nil {
			return nil, fmt.Errorf("modifies %s: base is not a location", exprString(x))
		}
		return []modLoc{cellLoc(vc, vc.extend(cur.Loc, index[len(index)-1]))}, nil
	}
	return nil, fmt.Errorf("unsupported modifies expression %s", exprString(x))
}

// memberN returns the term memberN(inner, n, k) and asserts its one-level unfolding at n and the
// witness axiom (a member has an index).
func (vc *VC) memberN(st *state, elem types.Type, sl, n, k string) string {
	es := vc.S.sortOf(elem)
	fn := q("memberN:" + typeKey(elem))
	wit := q("memberIdx:" + typeKey(elem))
	vc.S.declare("memberN:"+typeKey(elem), fmt.Sprintf("(declare-fun %s ((Array Int %s) Int %s) Bool)", fn, es, es))
	vc.S.declare("memberIdx:"+typeKey(elem), fmt.Sprintf("(declare-fun %s ((Array Int %s) Int %s) Int)", wit, es, es))
	inner := vc.sel(st, vc.elemKey(elem), "(sarr "+sl+")")
	app := func(m string) string { return fmt.Sprintf("(%s %s %s %s)", fn, inner, m, k) }
	vc.assume("true", fmt.Sprintf("(=> (<= %s 0) (not %s))", n, app(n)))
	vc.assume("true", fmt.Sprintf("(=> (> %s 0) (= %s (or %s (= (select %s (- %s 1)) %s))))", n, app(n), app("(- "+n+" 1)"), inner, n, k))
	w := fmt.Sprintf("(%s %s %s %s)", wit, inner, n, k)
	vc.assume("true", fmt.Sprintf("(=> %s (and (<= 0 %s) (< %s %s) (= (select %s %s) %s)))", app(n), w, w, n, inner, w, k))
	// every ghost index below n witnesses membership of its element
	for _, g := range vc.ghostByKey["Int"] {
		vc.assume("true", fmt.Sprintf("(=> (and (<= 0 %s) (< %s %s) (= (select %s %s) %s)) %s)", g, g, n, inner, g, k, app(n)))
	}
	return app(n)
}
