package main

// Static obligations over the SSA of the whole package (no solver):
//   nondet      : constructs whose outcome is not a function of the inputs (map iteration, select,
//                 goroutines, clock / random / environment reads) in any function of the package
//   fieldreads  : which fields of Field / Message / InjectedField each emitter family reads (emit-frame)

import (
	"fmt"
	"go/types"
	"sort"
	"strings"

	"golang.org/x/tools/go/ssa"
)

type ScanFinding struct {
	Func string `json:"func"`
	What string `json:"what"`
	Pos  string `json:"pos"`
}

func (e *Engine) allFuncs() []*ssa.Function {
	seen := map[*ssa.Function]bool{}
	var out []*ssa.Function
	var add func(f *ssa.Function)
	add = func(f *ssa.Function) {
		if f == nil || seen[f] || len(f.Blocks) == 0 {
			return
		}
		seen[f] = true
		out = append(out, f)
		for _, a := range f.AnonFuncs {
			add(a)
		}
	}
	for _, p := range e.pkgs {
		for _, m := range p.Members {
			if f, ok := m.(*ssa.Function); ok {
				add(f)
			}
		}
	}
	for _, f := range e.funcs {
		add(f)
	}
	sort.Slice(out, func(i, j int) bool { return out[i].String() < out[j].String() })
	return out
}

func (e *Engine) scanNondet() []ScanFinding {
	var out []ScanFinding
	bad := map[string]bool{"time.Now": true, "time.Since": true, "os.Getenv": true, "os.Environ": true, "os.Getpid": true,
		"os.Hostname": true, "reflect.Value.MapKeys": true, "reflect.Value.MapRange": true}
	for _, f := range e.allFuncs() {
		name := f.String()
		if f.Parent() != nil {
			name = f.Parent().String() + "$" + f.Name()
		}
		for _, b := range f.Blocks {
			for _, ins := range b.Instrs {
				pos := ""
				if ins.Pos().IsValid() {
					p := e.fset.Position(ins.Pos())
					pos = fmt.Sprintf("%s:%d", p.Filename, p.Line)
				}
				switch x := ins.(type) {
				case *ssa.Range:
					if _, ok := x.X.Type().Underlying().(*types.Map); ok {
						out = append(out, ScanFinding{name, "iteration over a map (order is random)", pos})
					}
				case *ssa.Select:
					out = append(out, ScanFinding{name, "select statement", pos})
				case *ssa.Go:
					out = append(out, ScanFinding{name, "goroutine", pos})
				case ssa.CallInstruction:
					if callee := x.Common().StaticCallee(); callee != nil {
						k := funcKey(callee)
						if bad[k] || strings.HasPrefix(k, "rand.") {
							out = append(out, ScanFinding{name, "call of " + k, pos})
						}
					}
				}
			}
		}
	}
	return out
}

// scanStdout: everything that writes to standard output (C01: stdout carries one serialized response
// and nothing else): fmt.Print*, the print/println built-ins (they write to stderr, listed for
// review), and every use of os.Stdout.
func (e *Engine) scanStdout() []ScanFinding {
	var out []ScanFinding
	printers := map[string]bool{"fmt.Print": true, "fmt.Printf": true, "fmt.Println": true}
	for _, f := range e.allFuncs() {
		name := f.String()
		if f.Parent() != nil {
			name = f.Parent().String() + "$" + f.Name()
		}
		for _, b := range f.Blocks {
			for _, ins := range b.Instrs {
				pos := ""
				if ins.Pos().IsValid() {
					p := e.fset.Position(ins.Pos())
					pos = fmt.Sprintf("%s:%d", p.Filename, p.Line)
				}
				if ci, ok := ins.(ssa.CallInstruction); ok {
					if callee := ci.Common().StaticCallee(); callee != nil && printers[funcKey(callee)] {
						out = append(out, ScanFinding{name, "call of " + funcKey(callee) + " (writes to stdout)", pos})
					}
				}
				for _, op := range ins.Operands(nil) {
					if op == nil || *op == nil {
						continue
					}
					if g, ok := (*op).(*ssa.Global); ok && g.Pkg != nil && g.Pkg.Pkg.Path() == "os" && g.Name() == "Stdout" {
						out = append(out, ScanFinding{name, "use of os.Stdout", pos})
					}
				}
			}
		}
	}
	return out
}

// scanFieldReads: for every function declared in the given files (and its closures), the struct
// fields of the named types it reads.
func (e *Engine) scanFieldReads(files []string, typeNames []string) map[string][]string {
	want := map[string]bool{}
	for _, t := range typeNames {
		want[t] = true
	}
	out := map[string]map[string]bool{}
	for _, f := range e.allFuncs() {
		root := f
		for root.Parent() != nil {
			root = root.Parent()
		}
		if !root.Pos().IsValid() {
			continue
		}
		file := e.fset.Position(root.Pos()).Filename
		hit := ""
		for _, fn := range files {
			if strings.HasSuffix(file, "/"+fn) {
				hit = fn
			}
		}
		if hit == "" {
			continue
		}
		for _, b := range f.Blocks {
			for _, ins := range b.Instrs {
				// string-valued shape fields may only be tested against "" (everything else is opaque text)
				record := func(tag string) {
					if out[hit] == nil {
						out[hit] = map[string]bool{}
					}
					out[hit][tag] = true
				}
				fieldOfLoad := func(v ssa.Value) string {
					var st types.Type
					idx := -1
					switch y := v.(type) {
					case *ssa.UnOp:
						if fa, ok := y.X.(*ssa.FieldAddr); ok {
							if p, ok := fa.X.Type().Underlying().(*types.Pointer); ok {
								st, idx = p.Elem(), fa.Field
							}
						}
					case *ssa.Field:
						st, idx = y.X.Type(), y.Field
					}
					if st == nil {
						return ""
					}
					n, ok := st.(*types.Named)
					if !ok || !want[n.Obj().Name()] {
						return ""
					}
					return n.Obj().Name() + "." + n.Underlying().(*types.Struct).Field(idx).Name()
				}
				switch x := ins.(type) {
				case *ssa.BinOp:
					if isString(x.X.Type()) && (x.Op.String() == "==" || x.Op.String() == "!=" || x.Op.String() == "<") {
						for _, pair := range [][2]ssa.Value{{x.X, x.Y}, {x.Y, x.X}} {
							if fn := fieldOfLoad(pair[0]); fn != "" {
								if c, ok := pair[1].(*ssa.Const); ok && c.Value != nil && c.Value.ExactString() == `""` {
									record("test-empty:" + fn)
								} else {
									record("compare:" + fn)
								}
							}
						}
					}
				case ssa.CallInstruction:
					if callee := x.Common().StaticCallee(); callee != nil && callee.Pkg != nil && callee.Pkg.Pkg.Name() == "strings" {
						for _, a := range x.Common().Args {
							if fn := fieldOfLoad(a); fn != "" {
								record("strings." + callee.Name() + ":" + fn)
							}
						}
					}
				}
				var st types.Type
				idx := -1
				switch x := ins.(type) {
				case *ssa.FieldAddr:
					if p, ok := x.X.Type().Underlying().(*types.Pointer); ok {
						st, idx = p.Elem(), x.Field
					}
				case *ssa.Field:
					st, idx = x.X.Type(), x.Field
				}
				if st == nil {
					continue
				}
				n, ok := st.(*types.Named)
				if !ok || !want[n.Obj().Name()] {
					continue
				}
				s := n.Underlying().(*types.Struct)
				fname := s.Field(idx).Name()
				if out[hit] == nil {
					out[hit] = map[string]bool{}
				}
				out[hit][n.Obj().Name()+"."+fname] = true
			}
		}
	}
	res := map[string][]string{}
	for k, m := range out {
		for f := range m {
			res[k] = append(res[k], f)
		}
		sort.Strings(res[k])
	}
	return res
}
