package main

// Loop handling: invariants are checked on entry and on every back edge; at the header the
// loop-carried SSA values and the heap locations the loop may write are havoc'd. Writes whose
// target can be resolved in the loop-entry state (a loop-invariant pointer, a field of it, the
// elements of a loop-invariant slice, a loop-invariant map) havoc only that location; cells
// allocated inside the loop are unconstrained; everything else that existed before the loop
// keeps its value (frame axiom, instantiated at every later select).

import (
	"fmt"
	"go/token"
	"go/types"
	"sort"
	"strings"

	"golang.org/x/tools/go/ssa"
)

type loopWrite struct {
	key   string
	whole bool
	loc   *Loc   // resolved location (Idx == "*" : all elements)
	mref  string // resolved map ref (key is MD:/MV:)
}

type loopInfo struct {
	phis   []*ssa.Phi
	keys   map[string]bool
	writes []loopWrite
	all    bool
}

func (vc *VC) iterKey(fr *frame, r *ssa.Range) string {
	m, _ := r.X.Type().Underlying().(*types.Map)
	k := fmt.Sprintf("IT:%s%s", fr.prefix, r.Name())
	if m != nil {
		vc.heapKeySort(k, "(Array "+vc.S.sortOf(m.Key())+" Bool)")
	} else {
		vc.heapKeySort(k, "(Array Int Bool)")
	}
	return k
}

func (vc *VC) allHeapKeys(h Heap) []string {
	keys := map[string]bool{}
	for k := range vc.heapSort {
		keys[k] = true
	}
	for k := range h {
		keys[k] = true
	}
	var ks []string
	for k := range keys {
		ks = append(ks, k)
	}
	sort.Strings(ks)
	return ks
}

func (vc *VC) allocKey(t types.Type) string {
	if a, ok := t.Underlying().(*types.Array); ok {
		return vc.elemKey(a.Elem())
	}
	return vc.cellKey(t)
}

// addrKey: heap key written by a store through addr (type based).
func (vc *VC) addrKey(addr ssa.Value) string {
	switch x := addr.(type) {
	case *ssa.FieldAddr:
		return vc.addrKey(x.X)
	case *ssa.IndexAddr:
		switch u := x.X.Type().Underlying().(type) {
		case *types.Slice:
			return vc.elemKey(u.Elem())
		case *types.Pointer:
			if a, ok := u.Elem().Underlying().(*types.Array); ok {
				return vc.elemKey(a.Elem())
			}
		}
	}
	pt, ok := addr.Type().Underlying().(*types.Pointer)
	if !ok {
		return "*"
	}
	return vc.allocKey(pt.Elem())
}

type loopScan struct {
	vc    *VC
	fr    *frame
	body  map[*ssa.BasicBlock]bool
	keys  map[string]bool
	all   bool
	pend  []pendingWrite
	iters []*ssa.Range
}

type pendingWrite struct {
	key  string
	addr ssa.Value // store address, or map value for map updates, or slice for element writes
	kind int       // 0 store, 1 map update, 2 all elements of slice (interface-wrapped or direct)
	deep bool      // inside an inlined callee: cannot be resolved
}

func (ls *loopScan) scan(fn *ssa.Function, blocks map[*ssa.BasicBlock]bool, depth int) {
	vc := ls.vc
	for _, b := range fn.Blocks {
		if blocks != nil && !blocks[b] {
			continue
		}
		for _, ins := range b.Instrs {
			switch x := ins.(type) {
			case *ssa.Store:
				k := vc.addrKey(x.Addr)
				ls.keys[k] = true
				ls.pend = append(ls.pend, pendingWrite{key: k, addr: x.Addr, deep: depth > 0})
			case *ssa.MapUpdate:
				if m, ok := x.Map.Type().Underlying().(*types.Map); ok {
					d, v := vc.mapKeysOf(m)
					ls.keys[d], ls.keys[v] = true, true
					ls.pend = append(ls.pend, pendingWrite{key: d, addr: x.Map, kind: 1, deep: depth > 0}, pendingWrite{key: v, addr: x.Map, kind: 1, deep: depth > 0})
				}
			case *ssa.Alloc:
				ls.keys["$alloc"] = true
				ls.keys[vc.allocKey(x.Type().Underlying().(*types.Pointer).Elem())] = true
			case *ssa.MakeMap:
				ls.keys["$alloc"] = true
				if m, ok := x.Type().Underlying().(*types.Map); ok {
					d, v := vc.mapKeysOf(m)
					ls.keys[d], ls.keys[v] = true, true
				}
			case *ssa.MakeSlice:
				ls.keys["$alloc"] = true
				if s, ok := x.Type().Underlying().(*types.Slice); ok && !isByteSlice(x.Type()) {
					ls.keys[vc.elemKey(s.Elem())] = true
				}
			case *ssa.Next:
				if r, ok := x.Iter.(*ssa.Range); ok {
					ls.keys[vc.iterKey(ls.fr, r)] = true
				}
			case ssa.CallInstruction:
				cc := x.Common()
				if cc.IsInvoke() {
					key := types.TypeString(cc.Value.Type(), shortQual) + "." + cc.Method.Name()
					if c := vc.eng.contractFor(key); c != nil && (len(c.Modifies) > 0 || c.ModAll) {
						ls.all = true
					}
					continue
				}
				if bi, ok := cc.Value.(*ssa.Builtin); ok {
					if bi.Name() == "append" {
						ls.keys["$alloc"] = true
						if s, ok := cc.Args[0].Type().Underlying().(*types.Slice); ok && !isByteSlice(cc.Args[0].Type()) {
							ls.keys[vc.elemKey(s.Elem())] = true
						}
					}
					if bi.Name() == "delete" {
						if m, ok := cc.Args[0].Type().Underlying().(*types.Map); ok {
							d, _ := vc.mapKeysOf(m)
							ls.keys[d] = true
							ls.pend = append(ls.pend, pendingWrite{key: d, addr: cc.Args[0], kind: 1, deep: depth > 0})
						}
					}
					continue
				}
				callee := cc.StaticCallee()
				if callee == nil {
					ls.all = true
					continue
				}
				key := funcKey(callee)
				switch key {
				case "diag.Diagnostics.Append":
					k := vc.addrKey(cc.Args[0])
					ls.keys[k] = true
					ls.pend = append(ls.pend, pendingWrite{key: k, addr: cc.Args[0], deep: depth > 0})
					// the variadic argument array is a fresh allocation
					continue
				case "sort.Strings":
					if s, ok := cc.Args[0].Type().Underlying().(*types.Slice); ok {
						k := vc.elemKey(s.Elem())
						ls.keys[k] = true
						ls.pend = append(ls.pend, pendingWrite{key: k, addr: cc.Args[0], kind: 2, deep: depth > 0})
					}
					continue
				case "sort.Slice":
					if mi, ok := cc.Args[0].(*ssa.MakeInterface); ok {
						if s, ok := mi.X.Type().Underlying().(*types.Slice); ok {
							k := vc.elemKey(s.Elem())
							ls.keys[k] = true
							ls.pend = append(ls.pend, pendingWrite{key: k, addr: mi.X, kind: 2, deep: depth > 0})
							continue
						}
					}
					ls.all = true
					continue
				}
				if c := vc.eng.contractFor(key); c != nil && !c.Inline {
					if c.Pure {
						continue
					}
					if !c.Extern && !c.Trusted && !c.ModAll {
						// the callee writes only what its modifies clause names (and fresh cells): the heap keys of
						// those locations, computed on placeholder arguments of the parameter types
						ks, ok := vc.modifiesKeys(callee, c)
						if ok {
							ls.keys["$alloc"] = true
							for _, k := range ks {
								ls.keys[k] = true
								ls.pend = append(ls.pend, pendingWrite{key: k, deep: true})
							}
							continue
						}
					}
					if (c.Extern || c.Trusted) && !c.ModAll {
						if len(c.Modifies) == 0 {
							continue
						}
						// an external function with a modifies clause writes through its pointer arguments
						for _, a := range cc.Args {
							if _, ok := a.Type().Underlying().(*types.Pointer); ok {
								k := vc.addrKey(a)
								ls.keys[k] = true
								ls.pend = append(ls.pend, pendingWrite{key: k, addr: a, deep: depth > 0})
							}
						}
						continue
					}
					ls.all = true
					continue
				}
				if vc.eng.isInterpreted(key) || callee.Blocks == nil {
					continue
				}
				if depth < 6 {
					ls.scan(callee, nil, depth+1)
				} else {
					ls.all = true
				}
			}
		}
	}
}

// entryVal evaluates an address computation of the loop body in the loop-entry state, if it
// only depends on loop-invariant values and on memory the loop does not write.
func (ls *loopScan) entryVal(v ssa.Value, st *state) (Val, bool, bool) { // value, isNew, ok
	vc, fr := ls.vc, ls.fr
	ins, isIns := v.(ssa.Instruction)
	if !isIns || !ls.body[ins.Block()] || ins.Parent() != fr.fn {
		if ins != nil && isIns && ins.Parent() != fr.fn {
			return Val{}, false, false
		}
		if _, defined := fr.vals[v]; defined {
			return vc.get(fr, v), false, true
		}
		switch v.(type) {
		case *ssa.Const, *ssa.Global, *ssa.Function:
			return vc.get(fr, v), false, true
		}
		return Val{}, false, false
	}
	switch x := v.(type) {
	case *ssa.Alloc, *ssa.MakeMap, *ssa.MakeSlice:
		return Val{}, true, true
	case *ssa.FieldAddr:
		b, isNew, ok := ls.entryVal(x.X, st)
		if !ok || isNew {
			return Val{}, isNew, ok
		}
		if b.Loc == nil {
			return Val{}, false, false
		}
		return Val{Typ: x.Type(), Loc: vc.extend(b.Loc, x.Field)}, false, true
	case *ssa.IndexAddr:
		b, isNew, ok := ls.entryVal(x.X, st)
		if !ok || isNew {
			return Val{}, isNew, ok
		}
		switch u := x.X.Type().Underlying().(type) {
		case *types.Slice:
			return Val{Typ: x.Type(), Loc: &Loc{Kind: LElem, Ref: "(sarr " + b.T + ")", Idx: "*", Cell: u.Elem()}}, false, true
		case *types.Pointer:
			if a, ok := u.Elem().Underlying().(*types.Array); ok && b.Loc != nil {
				return Val{Typ: x.Type(), Loc: &Loc{Kind: LElem, Ref: b.Loc.Ref, Idx: "*", Cell: a.Elem()}}, false, true
			}
		}
		return Val{}, false, false
	case *ssa.UnOp:
		if x.Op.String() != "*" {
			return Val{}, false, false
		}
		a, isNew, ok := ls.entryVal(x.X, st)
		if !ok || isNew || a.Loc == nil || a.Loc.Idx == "*" {
			return Val{}, false, false
		}
		k := vc.addrKey(x.X)
		if ls.all || ls.keys[k] {
			return Val{}, false, false
		}
		return vc.mkVal(vc.load(st, a.Loc), x.Type()), false, true
	case *ssa.ChangeType:
		b, isNew, ok := ls.entryVal(x.X, st)
		if !ok || isNew {
			return Val{}, isNew, ok
		}
		return vc.changeType(b, x.X.Type(), x.Type()), false, true
	}
	return Val{}, false, false
}

func (vc *VC) analyzeLoop(fr *frame, h *ssa.BasicBlock, st *state) loopInfo {
	var li loopInfo
	body := loopBlocks(h)
	for _, ins := range h.Instrs {
		if phi, ok := ins.(*ssa.Phi); ok {
			li.phis = append(li.phis, phi)
		}
	}
	ls := &loopScan{vc: vc, fr: fr, body: body, keys: map[string]bool{}}
	ls.scan(fr.fn, body, 0)
	li.keys, li.all = ls.keys, ls.all
	if ls.all {
		return li
	}
	for _, p := range ls.pend {
		if p.deep {
			li.writes = append(li.writes, loopWrite{key: p.key, whole: true})
			continue
		}
		v, isNew, ok := ls.entryVal(p.addr, st)
		if ok && isNew {
			continue
		}
		if !ok {
			li.writes = append(li.writes, loopWrite{key: p.key, whole: true})
			continue
		}
		switch p.kind {
		case 0:
			if v.Loc == nil {
				li.writes = append(li.writes, loopWrite{key: p.key, whole: true})
				continue
			}
			li.writes = append(li.writes, loopWrite{key: p.key, loc: v.Loc})
		case 1:
			li.writes = append(li.writes, loopWrite{key: p.key, mref: v.T})
		case 2:
			sl := p.addr.Type().Underlying().(*types.Slice)
			li.writes = append(li.writes, loopWrite{key: p.key, loc: &Loc{Kind: LElem, Ref: "(sarr " + v.T + ")", Idx: "*", Cell: sl.Elem()}})
		}
	}
	return li
}

func (vc *VC) loopHeader(fr *frame, h *ssa.BasicBlock, st *state, ord int) {
	li := vc.analyzeLoop(fr, h, st)
	invs := vc.loopInvariants(fr, ord)
	fr.loopEntry[h] = st.heap.clone()
	pos := vc.pos(fr, firstPos(h))
	if fr.depth > 0 && len(invs) == 0 {
		vc.errorf("%s: loop %d in inlined function has no invariant (give the function a contract)", fr.fn.Name(), ord)
	}
	// 1. invariants hold on entry
	for _, c := range invs {
		env := vc.specEnv(fr, st, h)
		t, err := env.evalBool(c.Expr)
		if err != nil {
			vc.errorf("%s: invariant[%d] %s: %v", fr.fn.Name(), ord, c.Name(), err)
			continue
		}
		vc.oblige("inv-entry", fmt.Sprintf("loop %d invariant holds on entry: %s", ord, c.Name()), c.Props, pos, st.reach, t)
	}
	if fr.depth == 0 {
		for _, g := range vc.frameGoals(fr, vc.contract, st) {
			vc.oblige("frame-inv-entry", fmt.Sprintf("loop %d: frame condition holds on entry for %s", ord, g.key), nil, pos, st.reach, g.goal)
		}
	}
	// 2. havoc
	var keys []string
	if li.all {
		keys = vc.allHeapKeys(st.heap)
	} else {
		for k := range li.keys {
			keys = append(keys, k)
		}
		sort.Strings(keys)
	}
	chains := map[string]string{}
	anyOf := map[string]string{}
	src := func(k string) string {
		if a, ok := anyOf[k]; ok {
			return a
		}
		a := vc.freshConst("any:"+k, vc.heapSort[k])
		anyOf[k] = a
		return a
	}
	whole := map[string]bool{}
	if li.all {
		for _, k := range keys {
			whole[k] = true
		}
	}
	for _, w := range li.writes {
		if w.whole {
			whole[w.key] = true
		}
	}
	for _, w := range li.writes {
		if whole[w.key] || vc.heapSort[w.key] == "" {
			continue
		}
		base, ok := chains[w.key]
		if !ok {
			base = vc.heapGet(st.heap, w.key)
		}
		switch {
		case w.mref != "":
			chains[w.key] = fmt.Sprintf("(store %s %s (select %s %s))", base, w.mref, src(w.key), w.mref)
		case w.loc != nil && w.loc.Idx == "*":
			chains[w.key] = fmt.Sprintf("(store %s %s (select %s %s))", base, w.loc.Ref, src(w.key), w.loc.Ref)
		case w.loc != nil:
			chains[w.key] = cellLoc(vc, w.loc).overwrite(vc, base, src(w.key))
		}
	}
	for k := range whole {
		if vc.heapSort[k] != "" && k != "$alloc" && !strings.HasPrefix(k, "IT:") {
			chains[k] = src(k)
		}
	}
	for _, k := range keys {
		if strings.HasPrefix(k, "IT:") {
			st.heap[k] = vc.freshConst("loop:"+k, vc.heapSort[k])
		}
	}
	vc.havocFrame(st, chains, keys)
	for _, phi := range li.phis {
		t := phi.Type()
		old := fr.vals[phi]
		if old.Loc != nil && len(old.Loc.Path) > 0 {
			vc.errorf("%s: loop phi %s carries interior pointer", fr.fn.Name(), phi.Name())
		}
		n := vc.freshConst(fr.prefix+phi.Name(), vc.S.sortOf(t))
		fr.vals[phi] = vc.mkVal(n, t)
		vc.assumeInv(st, n, t)
		if cphi, off, ok := loopCounter(h); ok && cphi == phi && off == 0 {
			// counter of `for i := 0; i < bound; i++`: never negative; not above a loop-invariant
			// non-negative bound (a length) it is compared with in the header
			vc.assume(st.reach, "(>= "+n+" 0)")
			for _, ins2 := range h.Instrs {
				cmp, ok := ins2.(*ssa.BinOp)
				if !ok || cmp.X != ssa.Value(phi) || cmp.Op != token.LSS {
					continue
				}
				if call, ok := cmp.Y.(*ssa.Call); ok {
					if bi, ok := call.Call.Value.(*ssa.Builtin); ok && bi.Name() == "len" && len(call.Call.Args) == 1 {
						arg := call.Call.Args[0]
						if ai, isIns := arg.(ssa.Instruction); isIns && loopBlocks(h)[ai.Block()] {
							continue
						}
						av := vc.get(fr, arg)
						switch arg.Type().Underlying().(type) {
						case *types.Slice:
							if !isByteSlice(arg.Type()) {
								vc.assume(st.reach, "(<= "+n+" (slen "+av.T+"))")
							}
						case *types.Basic:
							vc.assume(st.reach, "(<= "+n+" (str.len "+av.T+"))")
						}
					}
				}
			}
		}
		if phi.Comment == "rangeindex" {
			// built-in invariant of index loops (starts at -1, incremented by one)
			vc.assume(st.reach, "(>= "+n+" (- 1))")
			// ... and stays below the bound it is compared with: header is `i = phi+1; if i < bound`
			for _, ins := range h.Instrs {
				inc, ok := ins.(*ssa.BinOp)
				if !ok || inc.X != ssa.Value(phi) || inc.Op.String() != "+" {
					continue
				}
				for _, ins2 := range h.Instrs {
					cmp, ok := ins2.(*ssa.BinOp)
					if !ok || cmp.X != ssa.Value(inc) || cmp.Op.String() != "<" {
						continue
					}
					if bi, isIns := cmp.Y.(ssa.Instruction); isIns && loopBlocks(h)[bi.Block()] {
						continue
					}
					if len(phi.Edges) == 2 {
						vc.assume(st.reach, "(< "+n+" "+vc.get(fr, cmp.Y).T+")")
					}
				}
			}
		}
	}
	// processed keys of a map iteration are keys of the map (instantiated at ghost keys)
	for _, ins := range h.Instrs {
		if nx, ok := ins.(*ssa.Next); ok {
			if r, ok := nx.Iter.(*ssa.Range); ok {
				if it, ok := fr.iters[r]; ok && it.mapType != nil {
					P := vc.heapGetOr(st.heap, it.key)
					for _, g := range vc.ghostByKey[vc.S.sortOf(it.mapType.Key())] {
						vc.assume(st.reach, fmt.Sprintf("(=> (select %s %s) (select %s %s))", P, g, it.dom, g))
					}
				}
			}
		}
	}
	// preconditions that mention integer ghosts are universally quantified: instantiate them at the
	// current index of an index loop
	if fr.depth == 0 && vc.contract != nil && len(vc.contract.Ghosts) > 0 {
		for _, phi := range li.phis {
			cphi, off, ok := loopCounter(h)
			if !ok || cphi != phi {
				continue
			}
			cur := completedIters(fr.vals[phi].T, off)
			var intGhosts []string
			for _, g := range vc.contract.Ghosts {
				if gv, ok := vc.ghosts[g.Name]; ok && vc.S.sortOf(gv.Typ) == "Int" {
					intGhosts = append(intGhosts, g.Name)
				}
			}
			if len(intGhosts) == 0 {
				continue
			}
			// instances: all integer ghosts at the current index, and each one alone (the others stay
			// arbitrary)
			subsets := [][]string{intGhosts}
			if len(intGhosts) > 1 {
				for _, g := range intGhosts {
					subsets = append(subsets, []string{g})
				}
			}
			for _, sub := range subsets {
				env := vc.specEnv(fr, st, h)
				for _, g := range sub {
					env.vars[g] = Val{T: cur, Typ: vc.ghosts[g].Typ}
				}
				env.st = &state{reach: st.reach, heap: vc.entryHeap}
				env.noLocals = true
				for _, r := range vc.contract.Requires {
					if t, err := env.evalBool(r.Expr); err == nil {
						vc.assume(st.reach, t)
					}
				}
				// the loop's invariants hold for every value of the ghosts (they are proved for arbitrary
				// ones), in particular at the current index
				ienv := vc.specEnv(fr, st, h)
				for _, g := range sub {
					ienv.vars[g] = Val{T: cur, Typ: vc.ghosts[g].Typ}
				}
				for _, c := range invs {
					if t, err := ienv.evalBool(c.Expr); err == nil {
						vc.assume(st.reach, t)
					}
				}
			}
		}
	}
	// 3. assume invariants
	if fr.depth == 0 {
		for _, g := range vc.frameGoals(fr, vc.contract, st) {
			vc.assume(st.reach, g.goal)
			// the frame invariant is proved at an arbitrary reference: use it at the cells the
			// parameters point to as well
			sk := vc.frameSkolem(g.key)
			for _, p := range fr.fn.Params {
				pt, ok := p.Type().Underlying().(*types.Pointer)
				if !ok || vc.cellKey(pt.Elem()) != g.key {
					continue
				}
				if pv, ok := vc.params[p.Name()]; ok && pv.T != "" {
					vc.instFrames(g.key, pv.T)
					vc.assume(st.reach, strings.ReplaceAll(g.goal, sk, pv.T))
				}
			}
		}
	}
	for _, c := range invs {
		env := vc.specEnv(fr, st, h)
		t, err := env.evalBool(c.Expr)
		if err != nil {
			continue
		}
		vc.assume(st.reach, t)
	}
}

func (vc *VC) backEdge(fr *frame, from, h *ssa.BasicBlock, cond string, st *state, ord int) {
	invs := vc.loopInvariants(fr, ord)
	saved := map[*ssa.Phi]Val{}
	idx := -1
	for i, p := range h.Preds {
		if p == from {
			idx = i
		}
	}
	for _, ins := range h.Instrs {
		phi, ok := ins.(*ssa.Phi)
		if !ok {
			break
		}
		saved[phi] = fr.vals[phi]
		fr.vals[phi] = vc.get(fr, phi.Edges[idx])
	}
	pos := vc.pos(fr, firstPos(h))
	bst := &state{reach: cond, heap: st.heap}
	if fr.depth == 0 {
		for _, g := range vc.frameGoals(fr, vc.contract, bst) {
			vc.oblige("frame-inv-preserved", fmt.Sprintf("loop %d: frame condition preserved for %s", ord, g.key), nil, pos, cond, g.goal)
		}
	}
	if fr.depth == 0 && vc.contract != nil && vc.contract.HasPropagates {
		body := loopBlocks(h)
		for _, pe := range fr.errCalls {
			if body[pe.block] {
				vc.oblige("err-propagation", fmt.Sprintf("loop %d continues only if %s returned no error", ord, pe.what), vc.contract.Propagates, pos, cond,
					fmt.Sprintf("(not (and %s (not (= (itag %s) 0))))", pe.reach, pe.term))
			}
		}
	}
	for _, c := range invs {
		env := vc.specEnv(fr, bst, h)
		t, err := env.evalBool(c.Expr)
		if err != nil {
			vc.errorf("%s: invariant[%d] %s: %v", fr.fn.Name(), ord, c.Name(), err)
			continue
		}
		vc.oblige("inv-preserved", fmt.Sprintf("loop %d invariant preserved: %s", ord, c.Name()), c.Props, pos, cond, t)
	}
	for phi, v := range saved {
		fr.vals[phi] = v
	}
}

func (vc *VC) loopInvariants(fr *frame, ord int) []*Clause {
	if fr.depth > 0 || vc.contract == nil {
		return nil
	}
	var r []*Clause
	for _, c := range vc.contract.Invariants {
		if c.Loop == ord {
			r = append(r, c)
		}
	}
	return r
}

// modifiesKeys: heap keys of the locations a contract's modifies clause denotes.
func (vc *VC) modifiesKeys(callee *ssa.Function, c *Contract) ([]string, bool) {
	nl, nd := len(vc.lines), len(vc.errs)
	env := &SpecEnv{vc: vc, vars: map[string]Val{}, st: &state{reach: "true", heap: Heap{}}, old: Heap{}, contract: c, reach: "true", pkg: vc.eng.specPkg(callee)}
	for _, p := range callee.Params {
		n := vc.freshConst("dummy:"+p.Name(), vc.S.sortOf(p.Type()))
		env.vars[p.Name()] = vc.mkVal(n, p.Type())
	}
	env.oldVars = env.vars
	keys := map[string]bool{}
	ok := true
	for _, m := range c.Modifies {
		ls, err := env.modLocs(m)
		if err != nil {
			ok = false
			break
		}
		for _, ml := range ls {
			keys[ml.key] = true
		}
	}
	// the placeholder evaluation must not leave assumptions behind
	for i := nl; i < len(vc.lines); i++ {
		if strings.HasPrefix(vc.lines[i], "(assert") {
			vc.lines[i] = "(assert true)"
		}
	}
	vc.errs = vc.errs[:nd]
	var out []string
	for k := range keys {
		out = append(out, k)
	}
	sort.Strings(out)
	return out, ok
}

// loopCounter finds the counter of an index loop with header h and returns it with the offset to add
// to obtain the number of completed iterations: the index phi of a `range` loop over a slice, array,
// string or integer (starts at -1, incremented in the header: completed = phi + 1), or the counter
// of `for i := 0; ...; i++` (a header phi whose entry value is the constant 0 and whose value on
// every back edge is phi + 1: completed = phi).
func loopCounter(h *ssa.BasicBlock) (*ssa.Phi, int, bool) {
	for _, ins := range h.Instrs {
		if phi, ok := ins.(*ssa.Phi); ok && phi.Comment == "rangeindex" {
			return phi, 1, true
		}
	}
	for _, ins := range h.Instrs {
		phi, ok := ins.(*ssa.Phi)
		if !ok {
			break
		}
		if b, isInt := phi.Type().Underlying().(*types.Basic); !isInt || b.Info()&types.IsInteger == 0 {
			continue
		}
		good, entries, backs := true, 0, 0
		for i, e := range phi.Edges {
			if isBackEdge(h.Preds[i], h) {
				backs++
				inc, ok := e.(*ssa.BinOp)
				if !ok || inc.Op != token.ADD || inc.X != ssa.Value(phi) {
					good = false
					break
				}
				c, ok := inc.Y.(*ssa.Const)
				if !ok || c.Value == nil || c.Int64() != 1 {
					good = false
				}
			} else {
				entries++
				c, ok := e.(*ssa.Const)
				if !ok || c.Value == nil || c.Int64() != 0 {
					good = false
				}
			}
		}
		if good && entries >= 1 && backs >= 1 {
			return phi, 0, true
		}
	}
	return nil, 0, false
}

func completedIters(phiTerm string, off int) string {
	if off == 0 {
		return phiTerm
	}
	return fmt.Sprintf("(+ %s %d)", phiTerm, off)
}
