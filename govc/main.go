package main

import (
	"encoding/json"
	"flag"
	"fmt"
	"os"
	"sort"
	"strings"
	"time"
)

type FuncReport struct {
	Func    string   `json:"func"`
	Errors  []string `json:"errors,omitempty"`
	Inlined []string `json:"inlined,omitempty"`
	Assumed []string `json:"assumed,omitempty"`
	NObl    int      `json:"obligations"`
	Props   []string `json:"props,omitempty"`
	Trusted bool     `json:"trusted,omitempty"`
	GenSecs float64  `json:"gen_seconds"`
}

type Report struct {
	Dir     string          `json:"dir"`
	Funcs   []*FuncReport   `json:"funcs"`
	Results []*Result       `json:"results"`
	Errors  []string        `json:"errors,omitempty"`
	WallS   float64         `json:"wall_s"`
	Unused  []string        `json:"unused_contracts,omitempty"`
	Stale   []StaleContract `json:"stale_contracts,omitempty"`
}

type multiFlag []string

func (m *multiFlag) String() string     { return strings.Join(*m, ",") }
func (m *multiFlag) Set(s string) error { *m = append(*m, s); return nil }

func main() {
	var contracts multiFlag
	dir := flag.String("dir", "/repo", "package directory")
	pattern := flag.String("pkg", ".", "package pattern")
	tags := flag.String("tags", "verif", "build tags")
	flag.Var(&contracts, "contracts", "contract file (repeatable)")
	only := flag.String("funcs", "", "comma-separated function keys (default: all with contracts)")
	props := flag.String("props", "", "only functions carrying one of these properties")
	out := flag.String("out", "", "JSON report file")
	work := flag.String("work", "", "scratch directory for queries")
	workers := flag.Int("j", 16, "parallel solver processes")
	timeout := flag.Int("timeout", 10, "solver timeout (s)")
	seed := flag.Int("seed", 0, "solver seed")
	keep := flag.Bool("keep", false, "keep all query files")
	dump := flag.String("dump", "", "print SSA of this function and exit")
	tier2 := flag.Bool("tier2", false, "package is generated tier-2 code (attribution of safety/frame obligations)")
	scan := flag.String("scan", "", "static scan: nondet | fieldreads (JSON on stdout)")
	hintsFile := flag.String("replayhints", "", "JSON: function -> path suffix -> Go expression for opaque attribute types")
	doReplay := flag.Bool("replay", false, "replay counterexamples of failed obligations on the compiled package (tier 2)")
	flag.Parse()

	t0 := time.Now()
	eng, err := loadEngine(*dir, strings.Split(*pattern, ","), *tags, nil)
	if err != nil {
		fmt.Fprintln(os.Stderr, "load:", err)
		os.Exit(2)
	}
	if *dump != "" {
		fn := eng.funcs[*dump]
		if fn == nil {
			fmt.Fprintln(os.Stderr, "no such function")
			os.Exit(2)
		}
		fn.WriteTo(os.Stdout)
		for _, af := range fn.AnonFuncs {
			af.WriteTo(os.Stdout)
		}
		return
	}
	if *scan != "" {
		var v interface{}
		switch *scan {
		case "nondet":
			v = eng.scanNondet()
		case "stdout":
			v = eng.scanStdout()
		case "fieldreads":
			v = eng.scanFieldReads([]string{"gen_copy_from.go", "gen_copy_to.go", "gen_schema.go"}, []string{"Field", "Message", "TerraformType", "ProtobufType", "InjectedField"})
		default:
			fmt.Fprintln(os.Stderr, "unknown scan")
			os.Exit(2)
		}
		enc, _ := json.MarshalIndent(v, "", " ")
		fmt.Println(string(enc))
		return
	}
	for _, c := range contracts {
		if err := eng.contracts.ParseFile(c); err != nil {
			fmt.Fprintln(os.Stderr, "contracts:", err)
			os.Exit(2)
		}
	}
	rep := &Report{Dir: *dir}
	want := map[string]bool{}
	for _, f := range strings.Split(*only, ",") {
		if f != "" {
			want[f] = true
		}
	}
	wantProps := map[string]bool{}
	for _, p := range strings.Split(*props, ",") {
		if p != "" {
			wantProps[p] = true
		}
	}
	var vcs []*VC
	relevant := map[string]bool{}
	for _, key := range eng.contracts.Order {
		c := eng.contracts.Funcs[key]
		if c.Extern {
			continue
		}
		if len(want) > 0 && !want[key] {
			continue
		}
		if len(wantProps) > 0 && *tier2 {
			// generated packages have hundreds of functions: pre-select by the contract's own tags
			hit := false
			for p := range c.Props {
				if wantProps[p] {
					hit = true
				}
			}
			if !hit {
				continue
			}
		}
		fr := &FuncReport{Func: key, Trusted: c.Trusted}
		for p := range c.Props {
			fr.Props = append(fr.Props, p)
		}
		sort.Strings(fr.Props)
		rep.Funcs = append(rep.Funcs, fr)
		if c.Trusted {
			continue
		}
		g0 := time.Now()
		vc, err := eng.verifyFunc(key)
		fr.GenSecs = time.Since(g0).Seconds()
		if err != nil {
			fr.Errors = append(fr.Errors, err.Error())
			continue
		}
		fr.Errors = vc.errs
		for k := range vc.inlined {
			fr.Inlined = append(fr.Inlined, k)
		}
		for k := range vc.assumed {
			fr.Assumed = append(fr.Assumed, k)
		}
		sort.Strings(fr.Inlined)
		sort.Strings(fr.Assumed)
		fr.NObl = len(vc.obls)
		vcs = append(vcs, vc)
	}
	wdir := *work
	if wdir == "" {
		wdir, err = os.MkdirTemp("", "govc")
		if err != nil {
			fmt.Fprintln(os.Stderr, err)
			os.Exit(2)
		}
		if !*keep {
			defer os.RemoveAll(wdir)
		}
	} else {
		_ = os.MkdirAll(wdir, 0o755)
	}
	// attribute obligations to properties; with -props only the relevant ones are solved
	for _, vc := range vcs {
		var fprops []string
		if vc.contract != nil {
			for p := range vc.contract.Props {
				fprops = append(fprops, p)
			}
			sort.Strings(fprops)
		}
		var keepObls []*Obligation
		for _, o := range vc.obls {
			o.Eff = effectiveProps(o, fprops, *tier2)
			if len(wantProps) > 0 {
				hit := false
				for _, p := range o.Eff {
					if wantProps[p] {
						hit = true
					}
				}
				if !hit {
					continue
				}
			}
			keepObls = append(keepObls, o)
		}
		vc.obls = keepObls
		// a function is relevant to the requested properties if one of its obligations is, or its contract is
		rel := len(wantProps) == 0 || len(keepObls) > 0
		for _, p := range fprops {
			if wantProps[p] {
				rel = true
			}
		}
		relevant[vc.fnKey] = rel
	}
	{
		var kept []*FuncReport
		for _, f := range rep.Funcs {
			if r, ok := relevant[f.Func]; ok && !r {
				continue
			}
			kept = append(kept, f)
		}
		rep.Funcs = kept
	}
	rep.Results = solveAll(vcs, wdir, *workers, *timeout, *seed, *keep)
	if *doReplay {
		if *hintsFile != "" {
			if data, err := os.ReadFile(*hintsFile); err == nil {
				_ = json.Unmarshal(data, &eng.replayHints)
			}
		}
		byFn := map[string]*VC{}
		for _, vc := range vcs {
			byFn[vc.fnKey] = vc
		}
		nrep := 0
		for _, r := range rep.Results {
			if r.Status != "failed" || r.ExpectFail || nrep >= 6 {
				continue
			}
			if vc := byFn[r.Func]; vc != nil {
				r.Replay = eng.replay(vc, r.Obligation, *dir)
				if r.Replay.Attempted {
					nrep++
				}
			}
		}
	}
	for k, c := range eng.contracts.Funcs {
		if !c.Used && !c.Extern {
			rep.Unused = append(rep.Unused, k)
			// a contract whose function does not exist (renamed or deleted): its obligations cannot be generated
			if eng.funcs[k] == nil && *only == "" {
				var ps []string
				for p := range c.Props {
					ps = append(ps, p)
				}
				sort.Strings(ps)
				rep.Stale = append(rep.Stale, StaleContract{Key: k, Props: ps})
			}
		}
	}
	sort.Strings(rep.Unused)
	sort.Slice(rep.Stale, func(i, j int) bool { return rep.Stale[i].Key < rep.Stale[j].Key })
	rep.WallS = time.Since(t0).Seconds()
	enc, _ := json.MarshalIndent(rep, "", " ")
	if *out != "" {
		_ = os.WriteFile(*out, enc, 0o644)
	}
	nd, nf, nu := 0, 0, 0
	for _, r := range rep.Results {
		switch r.Status {
		case "discharged":
			nd++
		case "failed":
			nf++
			fmt.Printf("FAILED  %s #%d [%s] %s (%s)\n", r.Func, r.ID, r.Kind, r.Name, r.Pos)
		default:
			nu++
			fmt.Printf("UNKNOWN %s #%d [%s] %s (%s) %s\n", r.Func, r.ID, r.Kind, r.Name, r.Pos, r.Answer)
		}
	}
	for _, f := range rep.Funcs {
		for _, e := range f.Errors {
			fmt.Printf("ERROR   %s: %s\n", f.Func, e)
		}
	}
	fmt.Printf("functions=%d obligations=%d discharged=%d failed=%d unknown=%d wall=%.1fs\n", len(rep.Funcs), len(rep.Results), nd, nf, nu, rep.WallS)
	if wdir != "" && (*keep || nf+nu > 0) && *work != "" {
		fmt.Println("queries in", wdir)
	}
	if nf+nu > 0 {
		os.Exit(1)
	}
}

// effectiveProps: the properties an obligation is attributed to. Tagged clauses carry their own
// tags; untagged obligations (safety, frame, invariants, canaries) are attributed by kind.
// StaleContract is a contract of the contract file for which the package has no function.
type StaleContract struct {
	Key   string   `json:"key"`
	Props []string `json:"props"`
}

func effectiveProps(o *Obligation, fprops []string, tier2 bool) []string {
	if len(o.Props) > 0 {
		return o.Props
	}
	if o.Kind == "abort" {
		// a reachable call that ends the process: the plugin does not exit successfully (C01), besides
		// whatever the function stands for
		return append([]string{"C01"}, fprops...)
	}
	if tier2 {
		// glue functions of Tier 3 (compositions of the converters): everything belongs to the lemma's property
		for pre, prop := range map[string]string{"RoundTrip_": "C04", "Echo_": "C08", "Refresh_": "C09"} {
			if strings.HasPrefix(o.Func, pre) {
				return []string{prop}
			}
		}
		switch o.Kind {
		case "nil-deref", "bounds", "nil-map", "type-assert", "panic", "call-pre":
			r := []string{"C06"}
			if strings.HasSuffix(o.Func, "ToTerraform") {
				r = append(r, "C03")
			}
			if strings.Contains(o.Func, "custom") {
				r = append(r, "C17")
			}
			return r
		case "frame", "frame-inv-entry", "frame-inv-preserved":
			// what a converter leaves alone: C02 (each field's block touches only its own attribute and
			// struct field); for CopyFrom also C05 ("fields not described by the schema are left untouched")
			if strings.HasSuffix(o.Func, "FromTerraform") {
				return []string{"C02", "C05"}
			}
			return []string{"C02"}
		}
	}
	return fprops
}
