//go:build verif

package main

//@ func flagMapFromArray
//@ ghost j0 int
//@ ghost k0 string
//@ invariant[0] r != nil && fresh(r)
//@ invariant[0] imp(done(j0), has(r, v[j0]))
//@ ensures result != nil
//@ ensures imp(0 <= j0 && j0 < len(v), has(result, v[j0]))

//@ func FieldBuildContext.GetFlagValue
//@ requires c != nil
//@ ensures result == (has(f, c.typeName) || has(f, c.path))

//@ func Config.getStringParam
//@ requires c != nil
//@ ensures imp(strings.TrimSpace(c.params[name]) == "", result == d)
//@ ensures imp(strings.TrimSpace(c.params[name]) != "", result == strings.TrimSpace(c.params[name]))
