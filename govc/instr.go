package main

import (
	"fmt"
	"go/token"
	"go/types"
	"math/big"
	"strings"

	"golang.org/x/tools/go/ssa"
)

func (vc *VC) execInstr(fr *frame, b *ssa.BasicBlock, ins ssa.Instruction, st *state) {
	switch x := ins.(type) {
	case *ssa.DebugRef:
		return
	case *ssa.Alloc:
		pt := x.Type().Underlying().(*types.Pointer).Elem()
		ref := vc.allocRef(st, fr.prefix+x.Name())
		if a, ok := pt.Underlying().(*types.Array); ok {
			key := vc.elemKey(a.Elem())
			vc.sel(st, key, ref)
			st.heap[key] = vc.define("h", vc.heapSort[key], fmt.Sprintf("(store %s %s %s)", vc.heapGet(st.heap, key), ref, vc.S.zero(pt)))
			fr.vals[x] = Val{T: ref, Typ: x.Type(), Loc: &Loc{Kind: LCell, Ref: ref, Cell: pt}}
			return
		}
		key := vc.cellKey(pt)
		st.heap[key] = vc.define("h", vc.heapSort[key], fmt.Sprintf("(store %s %s %s)", vc.heapGet(st.heap, key), ref, vc.S.zero(pt)))
		fr.vals[x] = Val{T: ref, Typ: x.Type(), Loc: &Loc{Kind: LCell, Ref: ref, Cell: pt}}
	case *ssa.FieldAddr:
		p := vc.get(fr, x.X)
		if p.Loc == nil {
			vc.errorf("%s: FieldAddr on non-location %s", fr.fn.Name(), x.X.Name())
			fr.vals[x] = vc.mkVal(vc.freshConst("undef", "Int"), x.Type())
			return
		}
		if len(p.Loc.Path) == 0 && p.Loc.Kind == LCell {
			vc.oblige("nil-deref", fmt.Sprintf("%s is not nil (field %s)", x.X.Name(), fieldName(x.X.Type(), x.Field)), nil, vc.pos(fr, x.Pos()), st.reach, "(not (= "+p.Loc.Ref+" 0))")
		}
		nl := vc.extend(p.Loc, x.Field)
		fr.vals[x] = Val{Typ: x.Type(), Loc: nl}
		if len(nl.Path) == 0 && nl.Kind == LCell {
			fr.vals[x] = Val{T: nl.Ref, Typ: x.Type(), Loc: nl}
		}
	case *ssa.Field:
		v := vc.get(fr, x.X)
		vc.setTerm(fr, x, vc.S.proj(x.X.Type(), v.T, x.Field))
	case *ssa.IndexAddr:
		base := vc.get(fr, x.X)
		idx := vc.get(fr, x.Index).T
		switch u := x.X.Type().Underlying().(type) {
		case *types.Slice:
			if isByteSlice(x.X.Type()) {
				vc.errorf("%s: indexing a byte slice is not supported", fr.fn.Name())
			}
			vc.oblige("bounds", fmt.Sprintf("index %s within slice %s", x.Index.Name(), x.X.Name()), nil, vc.pos(fr, x.Pos()), st.reach,
				fmt.Sprintf("(and (<= 0 %s) (< %s (slen %s)))", idx, idx, base.T))
			fr.vals[x] = Val{Typ: x.Type(), Loc: &Loc{Kind: LElem, Ref: "(sarr " + base.T + ")", Idx: idx, Cell: u.Elem()}}
		case *types.Pointer:
			a := u.Elem().Underlying().(*types.Array)
			if base.Loc == nil || len(base.Loc.Path) != 0 {
				vc.errorf("%s: IndexAddr on interior array", fr.fn.Name())
				fr.vals[x] = vc.mkVal(vc.freshConst("undef", "Int"), x.Type())
				return
			}
			vc.oblige("bounds", fmt.Sprintf("index %s within array", x.Index.Name()), nil, vc.pos(fr, x.Pos()), st.reach,
				fmt.Sprintf("(and (<= 0 %s) (< %s %d))", idx, idx, a.Len()))
			fr.vals[x] = Val{Typ: x.Type(), Loc: &Loc{Kind: LElem, Ref: base.Loc.Ref, Idx: idx, Cell: a.Elem()}}
		default:
			vc.errorf("%s: IndexAddr on %v", fr.fn.Name(), x.X.Type())
		}
	case *ssa.UnOp:
		vc.execUnOp(fr, x, st)
	case *ssa.Store:
		addr := vc.get(fr, x.Addr)
		val := vc.get(fr, x.Val)
		if addr.Loc == nil {
			vc.errorf("%s: store through non-location", fr.fn.Name())
			return
		}
		t, ok := vc.firstClass(val)
		if !ok {
			vc.errorf("%s: storing an interior pointer (%s) is not supported", fr.fn.Name(), x.Val.Name())
			return
		}
		if len(addr.Loc.Path) == 0 && addr.Loc.Kind == LCell {
			vc.oblige("nil-deref", fmt.Sprintf("store target %s is not nil", x.Addr.Name()), nil, vc.pos(fr, x.Pos()), st.reach, "(not (= "+addr.Loc.Ref+" 0))")
		}
		// encapsulation: a field with declared writers is assigned by nobody else
		if fa, ok := x.Addr.(*ssa.FieldAddr); ok && len(vc.eng.contracts.FieldWriters) > 0 {
			if pt, ok := fa.X.Type().Underlying().(*types.Pointer); ok {
				if named, ok := pt.Elem().(*types.Named); ok {
					if st2, ok := named.Underlying().(*types.Struct); ok && fa.Field < st2.NumFields() {
						fkey := named.Obj().Name() + "." + st2.Field(fa.Field).Name()
						if ws, ok := vc.eng.contracts.FieldWriters[fkey]; ok {
							allowed := false
							for _, w := range ws {
								if w == funcKey(fr.fn) {
									allowed = true
								}
							}
							if !allowed {
								vc.oblige("field-writer", fmt.Sprintf("%s is assigned only by %s (here: %s)", fkey, strings.Join(ws, ", "), funcKey(fr.fn)), nil, vc.pos(fr, x.Pos()), st.reach, "false")
							}
						}
					}
				}
			}
		}
		vc.store(st, addr.Loc, t)
	case *ssa.BinOp:
		vc.execBinOp(fr, x, st)
	case *ssa.Phi:
	case *ssa.Extract:
		tv := vc.get(fr, x.Tuple)
		if x.Index >= len(tv.Tuple) {
			vc.errorf("%s: extract %d of non-tuple %s", fr.fn.Name(), x.Index, x.Tuple.Name())
			fr.vals[x] = vc.mkVal(vc.freshConst("undef", vc.S.sortOf(x.Type())), x.Type())
			return
		}
		fr.vals[x] = tv.Tuple[x.Index]
	case *ssa.ChangeType:
		v := vc.get(fr, x.X)
		fr.vals[x] = vc.changeType(v, x.X.Type(), x.Type())
	case *ssa.ChangeInterface:
		v := vc.get(fr, x.X)
		fr.vals[x] = Val{T: v.T, Typ: x.Type()}
	case *ssa.Convert:
		vc.execConvert(fr, x, st)
	case *ssa.MakeInterface:
		v := vc.get(fr, x.X)
		fr.vals[x] = Val{T: vc.box(st, v, x.X.Type()), Typ: x.Type()}
	case *ssa.TypeAssert:
		vc.execTypeAssert(fr, x, st)
	case *ssa.MakeMap:
		m := x.Type().Underlying().(*types.Map)
		ref := vc.allocRef(st, fr.prefix+x.Name())
		d, v := vc.mapKeysOf(m)
		empty := fmt.Sprintf("((as const (Array %s Bool)) false)", vc.S.sortOf(m.Key()))
		st.heap[d] = vc.define("h", vc.heapSort[d], fmt.Sprintf("(store %s %s %s)", vc.heapGet(st.heap, d), ref, empty))
		_ = v
		vc.assume(st.reach, fmt.Sprintf("(= (%s %s) 0)", vc.cardFn(m), empty))
		fr.vals[x] = Val{T: ref, Typ: x.Type()}
	case *ssa.MakeSlice:
		n := vc.get(fr, x.Len).T
		vc.oblige("bounds", "make: length is not negative", nil, vc.pos(fr, x.Pos()), st.reach, "(>= "+n+" 0)")
		if isByteSlice(x.Type()) {
			vc.errorf("%s: make([]byte) not supported", fr.fn.Name())
			return
		}
		sl := x.Type().Underlying().(*types.Slice)
		ref := vc.allocRef(st, fr.prefix+x.Name())
		key := vc.elemKey(sl.Elem())
		zeroArr := fmt.Sprintf("((as const (Array Int %s)) %s)", vc.S.sortOf(sl.Elem()), vc.S.zero(sl.Elem()))
		st.heap[key] = vc.define("h", vc.heapSort[key], fmt.Sprintf("(store %s %s %s)", vc.heapGet(st.heap, key), ref, zeroArr))
		vc.setTerm(fr, x, fmt.Sprintf("(mkSlice %s %s)", ref, n))
	case *ssa.MakeClosure:
		n := vc.freshConst("closure", "Int")
		fr.vals[x] = Val{T: n, Typ: x.Type()}
		vc.eng.closures[n] = x
	case *ssa.Lookup:
		vc.execLookup(fr, x, st)
	case *ssa.MapUpdate:
		m := x.Map.Type().Underlying().(*types.Map)
		mv := vc.get(fr, x.Map)
		k := vc.get(fr, x.Key).T
		val, ok := vc.firstClass(vc.get(fr, x.Value))
		if !ok {
			vc.errorf("%s: map update with interior pointer", fr.fn.Name())
			return
		}
		vc.oblige("nil-map", fmt.Sprintf("map %s is not nil on assignment", x.Map.Name()), nil, vc.pos(fr, x.Pos()), st.reach, "(not (= "+mv.T+" 0))")
		if vc.nonNilMap(m) {
			nz := "(not (= " + val + " 0))"
			if _, isI := m.Elem().Underlying().(*types.Interface); isI {
				nz = "(not (= (itag " + val + ") 0))"
			}
			vc.oblige("map-inv", fmt.Sprintf("value stored in %s is not nil (map invariant)", x.Map.Name()), nil, vc.pos(fr, x.Pos()), st.reach, nz)
		}
		vc.mapStore(st, m, mv.T, k, val)
	case *ssa.Slice:
		vc.execSlice(fr, x, st)
	case *ssa.Range:
		m, ok := x.X.Type().Underlying().(*types.Map)
		if !ok {
			vc.errorf("%s: range over %v not supported", fr.fn.Name(), x.X.Type())
			return
		}
		mv := vc.get(fr, x.X)
		d, v := vc.mapKeysOf(m)
		key := vc.iterKey(fr, x)
		dom := vc.define("dom", "(Array "+vc.S.sortOf(m.Key())+" Bool)",
			fmt.Sprintf("(ite (= %s 0) ((as const (Array %s Bool)) false) %s)", mv.T, vc.S.sortOf(m.Key()), vc.sel(st, d, mv.T)))
		fr.iters[x] = iterInfo{key: key, dom: dom, val: vc.sel(st, v, mv.T), mapType: m}
		st.heap[key] = fmt.Sprintf("((as const %s) false)", vc.heapSort[key])
		fr.vals[x] = Val{T: "0", Typ: x.Type()}
	case *ssa.Next:
		r, ok := x.Iter.(*ssa.Range)
		if !ok || x.IsString {
			vc.errorf("%s: unsupported iterator", fr.fn.Name())
			return
		}
		it := fr.iters[r]
		m := it.mapType
		P := vc.heapGetOr(st.heap, it.key)
		okc := vc.freshConst(fr.prefix+x.Name()+".ok", "Bool")
		k := vc.freshConst(fr.prefix+x.Name()+".k", vc.S.sortOf(m.Key()))
		if vc.S.sortOf(m.Key()) == "String" {
			vc.keyConsts = append(vc.keyConsts, k)
		}
		vc.assume(st.reach, fmt.Sprintf("(=> %s (and (select %s %s) (not (select %s %s))))", okc, it.dom, k, P, k))
		// exhaustion: instantiated at every ghost constant of the key sort
		for _, g := range vc.ghostByKey[vc.S.sortOf(m.Key())] {
			vc.assume(st.reach, fmt.Sprintf("(=> (not %s) (=> (select %s %s) (select %s %s)))", okc, it.dom, g, P, g))
		}
		vc.assume(st.reach, fmt.Sprintf("(=> (and (not %s) (= %s ((as const %s) false))) (= (%s %s) 0))", okc, P, vc.heapSort[it.key], vc.cardFn(m), it.dom))
		st.heap[it.key] = vc.define("it", vc.heapSort[it.key], fmt.Sprintf("(store %s %s true)", P, k))
		v := vc.define(fr.prefix+x.Name()+".v", vc.S.sortOf(m.Elem()), fmt.Sprintf("(select %s %s)", it.val, k))
		vc.assumeInv(st, v, m.Elem())
		vc.assumeInv(st, k, m.Key())
		fr.vals[x] = Val{Typ: x.Type(), Tuple: []Val{{T: okc, Typ: types.Typ[types.Bool]}, vc.mkVal(k, m.Key()), vc.mkVal(v, m.Elem())}}
		// preconditions that mention ghosts of the key sort are universally quantified: instantiate
		// them at the current key (one ghost at a time)
		if fr.depth == 0 && vc.contract != nil {
			ks := vc.S.sortOf(m.Key())
			for _, g := range vc.contract.Ghosts {
				gv, ok := vc.ghosts[g.Name]
				if !ok || vc.S.sortOf(gv.Typ) != ks {
					continue
				}
				env := vc.specEnv(fr, st, nil)
				env.vars[g.Name] = Val{T: k, Typ: gv.Typ}
				env.st = &state{reach: st.reach, heap: vc.entryHeap}
				env.noLocals = true
				for _, r := range vc.contract.Requires {
					if t, err := env.evalBool(r.Expr); err == nil {
						vc.assume(st.reach, t)
					}
				}
			}
		}
	case *ssa.Call:
		reachBefore := st.reach
		res := vc.execCall(fr, x.Common(), x, st)
		fr.vals[x] = res
		vc.recordErr(fr, b, x, res, reachBefore)
	case *ssa.RunDefers:
	default:
		vc.errorf("%s: unsupported instruction %T (%s)", fr.fn.Name(), ins, ins)
		if v, ok := ins.(ssa.Value); ok {
			fr.vals[v] = vc.mkVal(vc.freshConst("undef", vc.S.sortOf(v.Type())), v.Type())
		}
	}
}

func fieldName(pt types.Type, i int) string {
	if p, ok := pt.Underlying().(*types.Pointer); ok {
		if s, ok := p.Elem().Underlying().(*types.Struct); ok && i < s.NumFields() {
			return s.Field(i).Name()
		}
	}
	return fmt.Sprint(i)
}

func (vc *VC) mapStore(st *state, m *types.Map, ref, k, val string) {
	d, v := vc.mapKeysOf(m)
	od := vc.sel(st, d, ref)
	ov := vc.sel(st, v, ref)
	nd := vc.define("md", "(Array "+vc.S.sortOf(m.Key())+" Bool)", fmt.Sprintf("(store %s %s true)", od, k))
	card := vc.cardFn(m)
	vc.assume(st.reach, fmt.Sprintf("(= (%s %s) (+ (%s %s) (ite (select %s %s) 0 1)))", card, nd, card, od, od, k))
	vc.assume(st.reach, fmt.Sprintf("(>= (%s %s) 0)", card, od))
	st.heap[d] = vc.define("h", vc.heapSort[d], fmt.Sprintf("(store %s %s %s)", vc.heapGet(st.heap, d), ref, nd))
	st.heap[v] = vc.define("h", vc.heapSort[v], fmt.Sprintf("(store %s %s (store %s %s %s))", vc.heapGet(st.heap, v), ref, ov, k, val))
}

func (vc *VC) box(st *state, v Val, t types.Type) string {
	if _, ok := t.Underlying().(*types.Interface); ok {
		return v.T
	}
	term, ok := vc.firstClass(v)
	if !ok {
		vc.errorf("boxing an interior pointer is not supported")
		term = "0"
	}
	b := fmt.Sprintf("(%s %s)", vc.S.boxFn(t), term)
	vc.assume("true", fmt.Sprintf("(= (%s %s) %s)", vc.S.unboxFn(t), b, term))
	return fmt.Sprintf("(mkIface %d %s)", vc.S.tag(t), b)
}

func (vc *VC) execTypeAssert(fr *frame, x *ssa.TypeAssert, st *state) {
	v := vc.get(fr, x.X)
	at := x.AssertedType
	if _, isIface := at.Underlying().(*types.Interface); isIface {
		okc := vc.freshConst(fr.prefix+x.Name()+".ok", "Bool")
		vc.assume(st.reach, fmt.Sprintf("(=> %s (not (= (itag %s) 0)))", okc, v.T))
		if x.CommaOk {
			res := vc.define(fr.prefix+x.Name(), sortIface, fmt.Sprintf("(ite %s %s (mkIface 0 0))", okc, v.T))
			fr.vals[x] = Val{Typ: x.Type(), Tuple: []Val{{T: res, Typ: at}, {T: okc, Typ: types.Typ[types.Bool]}}}
		} else {
			vc.oblige("type-assert", "interface conversion succeeds", nil, vc.pos(fr, x.Pos()), st.reach, okc)
			fr.vals[x] = Val{T: v.T, Typ: at}
		}
		return
	}
	tag := vc.S.tag(at)
	ok := fmt.Sprintf("(= (itag %s) %d)", v.T, tag)
	un := fmt.Sprintf("(%s (iid %s))", vc.S.unboxFn(at), v.T)
	if x.CommaOk {
		okc := vc.define(fr.prefix+x.Name()+".ok", "Bool", ok)
		res := vc.define(fr.prefix+x.Name()+".v", vc.S.sortOf(at), fmt.Sprintf("(ite %s %s %s)", okc, un, vc.S.zero(at)))
		vc.assumeInv(st, res, at)
		fr.vals[x] = Val{Typ: x.Type(), Tuple: []Val{vc.mkVal(res, at), {T: okc, Typ: types.Typ[types.Bool]}}}
		return
	}
	vc.oblige("type-assert", fmt.Sprintf("%s holds a %s", x.X.Name(), types.TypeString(at, shortQual)), nil, vc.pos(fr, x.Pos()), st.reach, ok)
	res := vc.define(fr.prefix+x.Name(), vc.S.sortOf(at), un)
	vc.assumeInv(st, res, at)
	fr.vals[x] = vc.mkVal(res, at)
}

func shortQual(p *types.Package) string { return p.Name() }

func (vc *VC) execUnOp(fr *frame, x *ssa.UnOp, st *state) {
	v := vc.get(fr, x.X)
	switch x.Op {
	case token.MUL: // load
		if v.Loc == nil {
			vc.errorf("%s: load through non-location %s", fr.fn.Name(), x.X.Name())
			fr.vals[x] = vc.mkVal(vc.freshConst("undef", vc.S.sortOf(x.Type())), x.Type())
			return
		}
		if len(v.Loc.Path) == 0 && v.Loc.Kind == LCell {
			vc.oblige("nil-deref", fmt.Sprintf("%s is not nil (load)", x.X.Name()), nil, vc.pos(fr, x.Pos()), st.reach, "(not (= "+v.Loc.Ref+" 0))")
		}
		if _, isArr := x.Type().Underlying().(*types.Array); isArr {
			vc.errorf("%s: loading whole arrays is not supported", fr.fn.Name())
		}
		term := vc.load(st, v.Loc)
		n := vc.define(fr.prefix+x.Name(), vc.S.sortOf(x.Type()), term)
		vc.assumeInv(st, n, x.Type())
		fr.vals[x] = vc.mkVal(n, x.Type())
	case token.NOT:
		vc.setTerm(fr, x, not(v.T))
	case token.SUB:
		if b, ok := x.Type().Underlying().(*types.Basic); ok && b.Info()&types.IsFloat != 0 {
			vc.setTerm(fr, x, "(fp.neg "+v.T+")")
		} else {
			vc.setTerm(fr, x, "(- "+v.T+")")
		}
	default:
		vc.errorf("%s: unsupported unary operator %s", fr.fn.Name(), x.Op)
		fr.vals[x] = vc.mkVal(vc.freshConst("undef", vc.S.sortOf(x.Type())), x.Type())
	}
}

func (vc *VC) execBinOp(fr *frame, x *ssa.BinOp, st *state) {
	a, b := vc.get(fr, x.X), vc.get(fr, x.Y)
	t := x.X.Type()
	term, err := vc.binop(x.Op, a, b, t)
	if err != "" {
		vc.errorf("%s: %s", fr.fn.Name(), err)
		fr.vals[x] = vc.mkVal(vc.freshConst("undef", vc.S.sortOf(x.Type())), x.Type())
		return
	}
	vc.setTerm(fr, x, term)
}

func isFloat(t types.Type) bool {
	b, ok := t.Underlying().(*types.Basic)
	return ok && b.Info()&types.IsFloat != 0
}
func isString(t types.Type) bool {
	b, ok := t.Underlying().(*types.Basic)
	return ok && b.Info()&types.IsString != 0
}
func isInteger(t types.Type) bool {
	b, ok := t.Underlying().(*types.Basic)
	return ok && b.Info()&types.IsInteger != 0
}

// eqTerm builds equality of two values of Go type t (nil comparisons included).
func (vc *VC) eqTerm(a, b Val, t types.Type) (string, string) {
	if isDiagnostics(t) {
		return "(= " + a.T + " " + b.T + ")", ""
	}
	switch t.Underlying().(type) {
	case *types.Pointer:
		ra, oka := vc.firstClass(a)
		rb, okb := vc.firstClass(b)
		if oka && okb {
			return "(= " + ra + " " + rb + ")", ""
		}
		// an interior pointer is never nil
		if oka && ra == "0" || okb && rb == "0" {
			return "false", ""
		}
		return "", "comparison of interior pointers"
	case *types.Slice:
		if isByteSlice(t) {
			if b.T == vc.S.zero(t) {
				return "(bnil " + a.T + ")", ""
			}
			if a.T == vc.S.zero(t) {
				return "(bnil " + b.T + ")", ""
			}
			return "", "slice comparison"
		}
		if b.T == "(mkSlice 0 0)" {
			return "(= (sarr " + a.T + ") 0)", ""
		}
		if a.T == "(mkSlice 0 0)" {
			return "(= (sarr " + b.T + ") 0)", ""
		}
		return "", "slice comparison"
	case *types.Basic:
		if isFloat(t) {
			return "(fp.eq " + a.T + " " + b.T + ")", ""
		}
	}
	return "(= " + a.T + " " + b.T + ")", ""
}

func (vc *VC) binop(op token.Token, a, b Val, t types.Type) (string, string) {
	switch op {
	case token.EQL:
		return vc.eqTerm(a, b, t)
	case token.NEQ:
		e, err := vc.eqTerm(a, b, t)
		if err != "" {
			return "", err
		}
		return not(e), ""
	}
	switch {
	case isString(t):
		switch op {
		case token.ADD:
			return "(str.++ " + a.T + " " + b.T + ")", ""
		case token.LSS:
			return "(str.< " + a.T + " " + b.T + ")", ""
		case token.GTR:
			return "(str.< " + b.T + " " + a.T + ")", ""
		case token.LEQ:
			return "(str.<= " + a.T + " " + b.T + ")", ""
		case token.GEQ:
			return "(str.<= " + b.T + " " + a.T + ")", ""
		}
	case isFloat(t):
		m := map[token.Token]string{token.ADD: "fp.add RNE", token.SUB: "fp.sub RNE", token.MUL: "fp.mul RNE", token.QUO: "fp.div RNE",
			token.LSS: "fp.lt", token.GTR: "fp.gt", token.LEQ: "fp.leq", token.GEQ: "fp.geq"}
		if s, ok := m[op]; ok {
			return "(" + s + " " + a.T + " " + b.T + ")", ""
		}
	case isInteger(t):
		m := map[token.Token]string{token.ADD: "+", token.SUB: "-", token.MUL: "*", token.LSS: "<", token.GTR: ">", token.LEQ: "<=", token.GEQ: ">="}
		if s, ok := m[op]; ok {
			return "(" + s + " " + a.T + " " + b.T + ")", ""
		}
	default:
		if bt, ok := t.Underlying().(*types.Basic); ok && bt.Info()&types.IsBoolean != 0 {
			switch op {
			case token.AND, token.LAND:
				return and(a.T, b.T), ""
			case token.OR, token.LOR:
				return or(a.T, b.T), ""
			}
		}
	}
	return "", fmt.Sprintf("unsupported binary operator %s on %v", op, t)
}

func (vc *VC) changeType(v Val, from, to types.Type) Val {
	sf, st := vc.S.sortOf(from), vc.S.sortOf(to)
	if sf == st {
		r := v
		r.Typ = to
		if v.Loc == nil {
			r = vc.mkVal(v.T, to)
		} else if p, ok := to.Underlying().(*types.Pointer); ok && len(v.Loc.Path) == 0 {
			l := *v.Loc
			_ = p
			r.Loc = &l
		}
		return r
	}
	fs, ok1 := from.Underlying().(*types.Struct)
	ts, ok2 := to.Underlying().(*types.Struct)
	if ok1 && ok2 && fs.NumFields() == ts.NumFields() {
		var fields []string
		for i := 0; i < fs.NumFields(); i++ {
			fv := vc.changeType(Val{T: vc.S.proj(from, v.T, i), Typ: fs.Field(i).Type()}, fs.Field(i).Type(), ts.Field(i).Type())
			fields = append(fields, fv.T)
		}
		return Val{T: vc.S.mkStruct(to, fields), Typ: to}
	}
	vc.errorf("unsupported type change %v -> %v", from, to)
	return vc.mkVal(vc.freshConst("undef", st), to)
}

func wrapInt(x string, b *types.Basic) string {
	lo, hi, ok := intRange(b)
	if !ok {
		return x
	}
	size := new(big.Int).Add(new(big.Int).Sub(hi, lo), big.NewInt(1))
	if lo.Sign() == 0 {
		return fmt.Sprintf("(mod %s %s)", x, size)
	}
	half := new(big.Int).Neg(lo)
	return fmt.Sprintf("(- (mod (+ %s %s) %s) %s)", x, half, size, half)
}

func (vc *VC) execConvert(fr *frame, x *ssa.Convert, st *state) {
	v := vc.get(fr, x.X)
	r, err := vc.convert(v, x.X.Type(), x.Type())
	if err != "" {
		vc.errorf("%s: %s", fr.fn.Name(), err)
		fr.vals[x] = vc.mkVal(vc.freshConst("undef", vc.S.sortOf(x.Type())), x.Type())
		return
	}
	vc.setTerm(fr, x, r)
}

func (vc *VC) convert(v Val, from, to types.Type) (string, string) {
	fb, _ := from.Underlying().(*types.Basic)
	tb, _ := to.Underlying().(*types.Basic)
	switch {
	case fb != nil && tb != nil && fb.Info()&types.IsInteger != 0 && tb.Info()&types.IsInteger != 0:
		flo, fhi, ok1 := intRange(fb)
		tlo, thi, ok2 := intRange(tb)
		if ok1 && ok2 && flo.Cmp(tlo) >= 0 && fhi.Cmp(thi) <= 0 {
			return v.T, ""
		}
		return wrapInt(v.T, tb), ""
	case fb != nil && tb != nil && fb.Info()&types.IsFloat != 0 && tb.Info()&types.IsFloat != 0:
		if vc.S.sortOf(from) == vc.S.sortOf(to) {
			return v.T, ""
		}
		eb := "11 53"
		if tb.Kind() == types.Float32 {
			eb = "8 24"
		}
		return fmt.Sprintf("((_ to_fp %s) RNE %s)", eb, v.T), ""
	case fb != nil && tb != nil && fb.Info()&types.IsInteger != 0 && tb.Info()&types.IsFloat != 0:
		eb := "11 53"
		if tb.Kind() == types.Float32 {
			eb = "8 24"
		}
		return fmt.Sprintf("((_ to_fp %s) RNE (to_real %s))", eb, v.T), ""
	case fb != nil && tb != nil && isString(from) && isString(to):
		return v.T, ""
	case isString(from) && isByteSlice(to):
		return "(mkBytes false " + v.T + ")", ""
	case isByteSlice(from) && isString(to):
		return "(bstr " + v.T + ")", ""
	}
	if vc.S.sortOf(from) == vc.S.sortOf(to) {
		return v.T, ""
	}
	return "", fmt.Sprintf("unsupported conversion %v -> %v", from, to)
}

func (vc *VC) execLookup(fr *frame, x *ssa.Lookup, st *state) {
	mv := vc.get(fr, x.X)
	k := vc.get(fr, x.Index)
	m, ok := x.X.Type().Underlying().(*types.Map)
	if !ok {
		// string index
		if isString(x.X.Type()) {
			vc.oblige("bounds", "string index in range", nil, vc.pos(fr, x.Pos()), st.reach, fmt.Sprintf("(and (<= 0 %s) (< %s (str.len %s)))", k.T, k.T, mv.T))
			vc.setTerm(fr, x, fmt.Sprintf("(str.to_code (str.at %s %s))", mv.T, k.T))
			return
		}
		vc.errorf("%s: lookup on %v", fr.fn.Name(), x.X.Type())
		return
	}
	ok1, val := vc.mapLookup(st, m, mv.T, k.T)
	if x.CommaOk {
		okc := vc.define(fr.prefix+x.Name()+".ok", "Bool", ok1)
		v := vc.define(fr.prefix+x.Name()+".v", vc.S.sortOf(m.Elem()), val)
		vc.assumeInv(st, v, m.Elem())
		fr.vals[x] = Val{Typ: x.Type(), Tuple: []Val{vc.mkVal(v, m.Elem()), {T: okc, Typ: types.Typ[types.Bool]}}}
		return
	}
	v := vc.define(fr.prefix+x.Name(), vc.S.sortOf(m.Elem()), val)
	vc.assumeInv(st, v, m.Elem())
	fr.vals[x] = vc.mkVal(v, m.Elem())
}

// mapLookup returns (present, value-or-zero).
func (vc *VC) mapLookup(st *state, m *types.Map, ref, k string) (string, string) {
	d, v := vc.mapKeysOf(m)
	has := fmt.Sprintf("(and (not (= %s 0)) (select %s %s))", ref, vc.sel(st, d, ref), k)
	val := fmt.Sprintf("(ite %s (select %s %s) %s)", has, vc.sel(st, v, ref), k, vc.S.zero(m.Elem()))
	vc.mapKeys[d] = append(vc.mapKeys[d], k)
	if vc.nonNilMap(m) {
		sv := fmt.Sprintf("(select %s %s)", vc.sel(st, v, ref), k)
		nz := "(not (= " + sv + " 0))"
		if _, isI := m.Elem().Underlying().(*types.Interface); isI {
			nz = "(not (= (itag " + sv + ") 0))"
		}
		vc.assume("true", fmt.Sprintf("(=> %s %s)", has, nz))
	}
	// membership implies positive cardinality
	card := vc.cardFn(m)
	vc.assume("true", fmt.Sprintf("(=> (select %s %s) (> (%s %s) 0))", vc.sel(st, d, ref), k, card, vc.sel(st, d, ref)))
	return has, val
}

func (vc *VC) mapLen(st *state, m *types.Map, ref string) string {
	d, _ := vc.mapKeysOf(m)
	card := vc.cardFn(m)
	dom := vc.sel(st, d, ref)
	ks := vc.S.sortOf(m.Key())
	wit := q("wit:" + typeKey(m.Key()))
	vc.S.declare("wit:"+typeKey(m.Key()), fmt.Sprintf("(declare-fun %s ((Array %s Bool)) %s)", wit, ks, ks))
	vc.assume("true", fmt.Sprintf("(>= (%s %s) 0)", card, dom))
	vc.assume("true", fmt.Sprintf("(=> (> (%s %s) 0) (select %s (%s %s)))", card, dom, dom, wit, dom))
	vc.assume("true", fmt.Sprintf("(= (%s ((as const (Array %s Bool)) false)) 0)", card, ks))
	for _, g := range vc.ghostByKey[ks] {
		vc.assume("true", fmt.Sprintf("(=> (select %s %s) (> (%s %s) 0))", dom, g, card, dom))
	}
	return fmt.Sprintf("(ite (= %s 0) 0 (%s %s))", ref, card, dom)
}

func (vc *VC) execSlice(fr *frame, x *ssa.Slice, st *state) {
	v := vc.get(fr, x.X)
	switch u := x.X.Type().Underlying().(type) {
	case *types.Basic:
		if !isString(x.X.Type()) {
			break
		}
		lo, hi := "0", "(str.len "+v.T+")"
		if x.Low != nil {
			lo = vc.get(fr, x.Low).T
		}
		if x.High != nil {
			hi = vc.get(fr, x.High).T
		}
		vc.oblige("bounds", fmt.Sprintf("string slice bounds %s[%s:%s]", x.X.Name(), nameOr(x.Low, "0"), nameOr(x.High, "len")), nil, vc.pos(fr, x.Pos()), st.reach,
			fmt.Sprintf("(and (<= 0 %s) (<= %s %s) (<= %s (str.len %s)))", lo, lo, hi, hi, v.T))
		vc.setTerm(fr, x, fmt.Sprintf("(str.substr %s %s (- %s %s))", v.T, lo, hi, lo))
		return
	case *types.Pointer:
		if a, ok := u.Elem().Underlying().(*types.Array); ok && x.Low == nil && v.Loc != nil && len(v.Loc.Path) == 0 {
			if x.High == nil {
				vc.setTerm(fr, x, fmt.Sprintf("(mkSlice %s %d)", v.Loc.Ref, a.Len()))
				return
			}
			hi := vc.get(fr, x.High).T
			vc.oblige("bounds", "slice bound within array length", nil, vc.pos(fr, x.Pos()), st.reach, fmt.Sprintf("(and (<= 0 %s) (<= %s %d))", hi, hi, a.Len()))
			vc.setTerm(fr, x, fmt.Sprintf("(mkSlice %s %s)", v.Loc.Ref, hi))
			return
		}
	case *types.Slice:
		if x.Low == nil && x.High == nil {
			fr.vals[x] = v
			return
		}
		if x.Low == nil && !isByteSlice(x.X.Type()) {
			hi := vc.get(fr, x.High).T
			vc.oblige("bounds", "slice bound within length", nil, vc.pos(fr, x.Pos()), st.reach, fmt.Sprintf("(and (<= 0 %s) (<= %s (slen %s)))", hi, hi, v.T))
			vc.setTerm(fr, x, fmt.Sprintf("(mkSlice (sarr %s) %s)", v.T, hi))
			return
		}
	}
	vc.errorf("%s: unsupported slice expression on %v", fr.fn.Name(), x.X.Type())
	fr.vals[x] = vc.mkVal(vc.freshConst("undef", vc.S.sortOf(x.Type())), x.Type())
}

func nameOr(v ssa.Value, d string) string {
	if v == nil {
		return d
	}
	return v.Name()
}

var _ = strings.Contains

// recordErr remembers the error result of a call (for `propagates` contracts).
func (vc *VC) recordErr(fr *frame, b *ssa.BasicBlock, call *ssa.Call, res Val, reach string) {
	if fr.depth != 0 {
		return
	}
	var ev Val
	rt := call.Type()
	if tup, ok := rt.(*types.Tuple); ok {
		if tup.Len() == 0 || len(res.Tuple) != tup.Len() {
			return
		}
		ev = res.Tuple[tup.Len()-1]
		rt = tup.At(tup.Len() - 1).Type()
	} else {
		ev = res
	}
	if n, ok := rt.(*types.Named); !ok || n.Obj().Name() != "error" || n.Obj().Pkg() != nil {
		return
	}
	name := "call"
	if callee := call.Common().StaticCallee(); callee != nil {
		name = funcKey(callee)
		if strings.HasPrefix(name, "trace.") || strings.HasPrefix(name, "errors.") || strings.HasPrefix(name, "fmt.") {
			return // constructs or wraps an error on purpose
		}
	} else if call.Common().IsInvoke() {
		name = call.Common().Method.Name()
	}
	fr.errCalls = append(fr.errCalls, pendingErr{term: ev.T, reach: reach, what: name, block: b})
}
