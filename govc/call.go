package main

import (
	"fmt"
	"go/types"
	"sort"
	"strings"

	"golang.org/x/tools/go/ssa"
)

const maxInlineDepth = 8

// funcKey is the name contracts use for a function: "Recv.Name" / "Name" for the package
// under verification, "pkg.Recv.Name" / "pkg.Name" for others.
func funcKey(fn *ssa.Function) string {
	name := fn.Name()
	pkgPrefix := ""
	var recvName string
	if fn.Signature != nil && fn.Signature.Recv() != nil {
		rt := fn.Signature.Recv().Type()
		if p, ok := rt.(*types.Pointer); ok {
			rt = p.Elem()
		}
		if n, ok := rt.(*types.Named); ok {
			recvName = n.Obj().Name()
			if n.Obj().Pkg() != nil {
				pkgPrefix = n.Obj().Pkg().Name()
			}
		} else {
			recvName = types.TypeString(rt, shortQual)
		}
	} else if fn.Pkg != nil {
		pkgPrefix = fn.Pkg.Pkg.Name()
	} else if fn.Object() != nil && fn.Object().Pkg() != nil {
		pkgPrefix = fn.Object().Pkg().Name()
	}
	k := name
	if recvName != "" {
		k = recvName + "." + name
	}
	if pkgPrefix != "" && pkgPrefix != "main" && !strings.HasPrefix(pkgPrefix, "tier2") {
		k = pkgPrefix + "." + k
	}
	return k
}

func (vc *VC) freshResult(st *state, t types.Type, hint string) Val {
	if tup, ok := t.(*types.Tuple); ok {
		v := Val{Typ: t}
		for i := 0; i < tup.Len(); i++ {
			v.Tuple = append(v.Tuple, vc.freshResult(st, tup.At(i).Type(), fmt.Sprintf("%s.%d", hint, i)))
		}
		return v
	}
	n := vc.freshConst(hint, vc.S.sortOf(t))
	vc.assumeInv(st, n, t)
	return vc.mkVal(n, t)
}

// ufApply models a call as an uninterpreted function of its (first-class) arguments.
func (vc *VC) ufApply(st *state, name string, args []Val, rt types.Type, hint string) Val {
	var sorts, terms []string
	for _, a := range args {
		t, ok := vc.firstClass(a)
		if !ok {
			continue // interior pointers do not take part in the functional model
		}
		if a.Typ != nil {
			if sl, isSlice := a.Typ.Underlying().(*types.Slice); isSlice && !isByteSlice(a.Typ) && !isDiagnostics(a.Typ) {
				// the result may depend on the elements, not on the identity of the backing array
				inner := vc.sel(st, vc.elemKey(sl.Elem()), "(sarr "+t+")")
				sorts = append(sorts, "(Array Int "+vc.S.sortOf(sl.Elem())+")", "Int")
				terms = append(terms, inner, "(slen "+t+")")
				continue
			}
		}
		sorts = append(sorts, vc.S.sortOf(a.Typ))
		terms = append(terms, t)
	}
	mk := func(i int, t types.Type) Val {
		fname := q(fmt.Sprintf("fn:%s#%d", name, i))
		key := fmt.Sprintf("fn:%s#%d(%s)", name, i, strings.Join(sorts, ","))
		if len(sorts) == 0 {
			vc.S.declare(key, fmt.Sprintf("(declare-const %s %s)", fname, vc.S.sortOf(t)))
		} else {
			vc.S.declare(key, fmt.Sprintf("(declare-fun %s (%s) %s)", fname, strings.Join(sorts, " "), vc.S.sortOf(t)))
		}
		app := fname
		if len(terms) > 0 {
			app = "(" + fname + " " + strings.Join(terms, " ") + ")"
		}
		n := vc.define(hint, vc.S.sortOf(t), app)
		for _, c := range vc.S.typeInv(n, t, "", 0) {
			vc.assume("true", c)
		}
		return vc.mkVal(n, t)
	}
	if tup, ok := rt.(*types.Tuple); ok {
		v := Val{Typ: rt}
		for i := 0; i < tup.Len(); i++ {
			v.Tuple = append(v.Tuple, mk(i, tup.At(i).Type()))
		}
		return v
	}
	return mk(0, rt)
}

func (vc *VC) execCall(fr *frame, cc *ssa.CallCommon, call ssa.Value, st *state) Val {
	rt := call.Type()
	hint := fr.prefix + call.Name()
	var args []Val
	for _, a := range cc.Args {
		args = append(args, vc.get(fr, a))
	}
	if cc.IsInvoke() {
		recv := vc.get(fr, cc.Value)
		vc.oblige("nil-deref", fmt.Sprintf("interface %s is not nil (method %s)", cc.Value.Name(), cc.Method.Name()), nil, vc.pos(fr, call.Pos()), st.reach,
			"(not (= (itag "+recv.T+") 0))")
		key := types.TypeString(cc.Value.Type(), shortQual) + "." + cc.Method.Name()
		all := append([]Val{recv}, args...)
		if c := vc.eng.contractFor(key); c != nil && c.Extern {
			return vc.modularCall(fr, nil, key, c, all, cc.Signature(), rt, hint, st, call)
		}
		vc.assumed["uninterpreted: "+key] = true
		return vc.ufApply(st, key, all, rt, hint)
	}
	if bi, ok := cc.Value.(*ssa.Builtin); ok {
		return vc.execBuiltin(fr, bi, cc, args, rt, hint, st, call)
	}
	callee := cc.StaticCallee()
	if callee == nil {
		vc.errorf("%s: dynamic call %s is not supported", fr.fn.Name(), call.Name())
		return vc.freshResult(st, rt, hint)
	}
	if _, isClosure := cc.Value.(*ssa.MakeClosure); isClosure {
		vc.errorf("%s: closure call not supported", fr.fn.Name())
		return vc.freshResult(st, rt, hint)
	}
	key := funcKey(callee)
	if r, ok := vc.interpreted(fr, key, cc, args, rt, hint, st, call); ok {
		return r
	}
	if c := vc.eng.contractFor(key); c != nil && !c.Inline {
		return vc.modularCall(fr, callee, key, c, args, callee.Signature, rt, hint, st, call)
	}
	if callee.Blocks == nil {
		vc.assumed["uninterpreted: "+key] = true
		return vc.ufApply(st, key, args, rt, hint)
	}
	// inline
	for _, s := range fr.stack {
		if s == key {
			vc.errorf("%s: recursive call to %s needs a contract", fr.fn.Name(), key)
			return vc.freshResult(st, rt, hint)
		}
	}
	if fr.depth >= maxInlineDepth {
		vc.errorf("%s: inlining depth exceeded at %s", fr.fn.Name(), key)
		return vc.freshResult(st, rt, hint)
	}
	vc.inlined[key] = true
	vc.nfresh++
	nf := vc.newFrame(callee, fmt.Sprintf("%s%s$%d.", fr.prefix, callee.Name(), vc.nfresh), fr.depth+1, append(append([]string{}, fr.stack...), key))
	for i, p := range callee.Params {
		nf.vals[p] = args[i]
	}
	rets := vc.run(nf, state{reach: st.reach, heap: st.heap})
	return vc.mergeReturns(rets, rt, hint, st)
}

func (vc *VC) mergeReturns(rets []retInfo, rt types.Type, hint string, st *state) Val {
	if len(rets) == 0 {
		st.reach = "false"
		return vc.freshResult(st, rt, hint)
	}
	if len(rets) == 1 {
		st.reach = rets[0].reach
		st.heap = rets[0].heap.clone()
		return packResults(rets[0].vals, rt)
	}
	var conds []string
	for _, r := range rets {
		conds = append(conds, r.reach)
	}
	st.reach = vc.define("reach", "Bool", or(conds...))
	keys := map[string]bool{}
	for _, r := range rets {
		for k := range r.heap {
			keys[k] = true
		}
	}
	nh := Heap{}
	var ks []string
	for k := range keys {
		ks = append(ks, k)
	}
	sort.Strings(ks)
	for _, k := range ks {
		first := vc.heapGetOr(rets[0].heap, k)
		same := true
		for _, r := range rets[1:] {
			if vc.heapGetOr(r.heap, k) != first {
				same = false
			}
		}
		if same {
			nh[k] = first
			continue
		}
		n := vc.freshConst("hm", vc.heapSort[k])
		for i, r := range rets {
			vc.assert(fmt.Sprintf("(=> %s (= %s %s))", conds[i], n, vc.heapGetOr(r.heap, k)))
		}
		nh[k] = n
	}
	st.heap = nh
	nres := len(rets[0].vals)
	var merged []Val
	for j := 0; j < nres; j++ {
		t := rets[0].vals[j].Typ
		allSame := true
		f0, ok0 := vc.firstClass(rets[0].vals[j])
		for _, r := range rets[1:] {
			f, ok := vc.firstClass(r.vals[j])
			if !ok || !ok0 || f != f0 {
				allSame = false
			}
		}
		if allSame && ok0 {
			merged = append(merged, rets[0].vals[j])
			continue
		}
		n := vc.freshConst(hint+".r", vc.S.sortOf(t))
		for i, r := range rets {
			f, ok := vc.firstClass(r.vals[j])
			if !ok {
				vc.errorf("returning an interior pointer is not supported")
				continue
			}
			vc.assert(fmt.Sprintf("(=> %s (= %s %s))", conds[i], n, f))
		}
		merged = append(merged, vc.mkVal(n, t))
	}
	return packResults(merged, rt)
}

func packResults(vals []Val, rt types.Type) Val {
	if _, ok := rt.(*types.Tuple); ok {
		return Val{Typ: rt, Tuple: vals}
	}
	if len(vals) == 1 {
		return vals[0]
	}
	return Val{Typ: rt, Tuple: vals}
}

func (vc *VC) execBuiltin(fr *frame, bi *ssa.Builtin, cc *ssa.CallCommon, args []Val, rt types.Type, hint string, st *state, call ssa.Value) Val {
	switch bi.Name() {
	case "len":
		a := args[0]
		var term string
		switch u := cc.Args[0].Type().Underlying().(type) {
		case *types.Basic:
			term = "(str.len " + a.T + ")"
		case *types.Slice:
			if isByteSlice(cc.Args[0].Type()) {
				term = "(str.len (bstr " + a.T + "))"
			} else if isDiagnostics(cc.Args[0].Type()) {
				term = "(dn " + a.T + ")"
			} else {
				term = "(slen " + a.T + ")"
			}
		case *types.Map:
			term = vc.mapLen(st, u, a.T)
		case *types.Array:
			term = fmt.Sprint(u.Len())
		default:
			vc.errorf("%s: len of %v", fr.fn.Name(), cc.Args[0].Type())
			term = "0"
		}
		n := vc.define(hint, "Int", term)
		return Val{T: n, Typ: rt}
	case "append":
		return vc.execAppend(fr, cc, args, rt, hint, st)
	case "delete":
		m := cc.Args[0].Type().Underlying().(*types.Map)
		d, _ := vc.mapKeysOf(m)
		od := vc.sel(st, d, args[0].T)
		nd := fmt.Sprintf("(store %s %s false)", od, args[1].T)
		st.heap[d] = vc.define("h", vc.heapSort[d], fmt.Sprintf("(store %s %s %s)", vc.heapGet(st.heap, d), args[0].T, nd))
		return Val{Typ: rt}
	}
	vc.errorf("%s: builtin %s not supported", fr.fn.Name(), bi.Name())
	return vc.freshResult(st, rt, hint)
}

// varargsLen recognises the SSA idiom for variadic arguments: slice of a fresh array.
func varargsLen(v ssa.Value) (int64, bool) {
	if c, ok := v.(*ssa.Const); ok && c.Value == nil {
		return 0, true
	}
	sl, ok := v.(*ssa.Slice)
	if !ok || sl.Low != nil || sl.High != nil {
		return 0, false
	}
	al, ok := sl.X.(*ssa.Alloc)
	if !ok {
		return 0, false
	}
	a, ok := al.Type().Underlying().(*types.Pointer).Elem().Underlying().(*types.Array)
	if !ok {
		return 0, false
	}
	return a.Len(), true
}

func (vc *VC) execAppend(fr *frame, cc *ssa.CallCommon, args []Val, rt types.Type, hint string, st *state) Val {
	if isByteSlice(rt) || isDiagnostics(rt) {
		vc.errorf("%s: append on %v not supported", fr.fn.Name(), rt)
		return vc.freshResult(st, rt, hint)
	}
	sl := rt.Underlying().(*types.Slice)
	key := vc.elemKey(sl.Elem())
	s, xs := args[0], args[1]
	oldInner := vc.sel(st, key, "(sarr "+s.T+")")
	ref := vc.allocRef(st, hint+".arr")
	esort := vc.S.sortOf(sl.Elem())
	if n, ok := varargsLen(cc.Args[1]); ok {
		inner := oldInner
		xinner := vc.sel(st, key, "(sarr "+xs.T+")")
		for i := int64(0); i < n; i++ {
			inner = fmt.Sprintf("(store %s (+ (slen %s) %d) (select %s %d))", inner, s.T, i, xinner, i)
		}
		in := vc.define("inner", "(Array Int "+esort+")", inner)
		st.heap[key] = vc.define("h", vc.heapSort[key], fmt.Sprintf("(store %s %s %s)", vc.heapGet(st.heap, key), ref, in))
		r := vc.define(hint, sortSlice, fmt.Sprintf("(mkSlice %s (+ (slen %s) %d))", ref, s.T, n))
		return vc.mkVal(r, rt)
	}
	// general append(s, xs...): contents constrained at ghost indices only
	xinner := vc.sel(st, key, "(sarr "+xs.T+")")
	in := vc.freshConst("inner", "(Array Int "+esort+")")
	for _, g := range vc.ghostByKey["Int"] {
		vc.assume(st.reach, fmt.Sprintf("(=> (and (<= 0 %s) (< %s (slen %s))) (= (select %s %s) (select %s %s)))", g, g, s.T, in, g, oldInner, g))
		vc.assume(st.reach, fmt.Sprintf("(=> (and (<= (slen %s) %s) (< %s (+ (slen %s) (slen %s)))) (= (select %s %s) (select %s (- %s (slen %s)))))", s.T, g, g, s.T, xs.T, in, g, xinner, g, s.T))
	}
	st.heap[key] = vc.define("h", vc.heapSort[key], fmt.Sprintf("(store %s %s %s)", vc.heapGet(st.heap, key), ref, in))
	r := vc.define(hint, sortSlice, fmt.Sprintf("(mkSlice %s (+ (slen %s) (slen %s)))", ref, s.T, xs.T))
	return vc.mkVal(r, rt)
}

// ---------------------------------------------------------------- modular calls

// havocAll replaces every heap key by a fresh version that agrees with `chain` on
// cells that existed before the call (instantiated lazily at every later select).
func (vc *VC) havocFrame(st *state, chains map[string]string, keys []string) {
	bound := vc.allocTerm(st.heap)
	for _, k := range keys {
		if k == "$alloc" || strings.HasPrefix(k, "IT:") {
			continue
		}
		srt := vc.heapSort[k]
		cur := vc.heapGet(st.heap, k)
		chain, ok := chains[k]
		if !ok {
			chain = cur
		}
		n := vc.freshConst("post:"+k, srt)
		vc.frames[k] = append(vc.frames[k], frameAx{knew: n, chain: chain, bound: bound})
		st.heap[k] = n
	}
	na := vc.freshConst("alloc", "Int")
	vc.assume(st.reach, fmt.Sprintf("(>= %s %s)", na, bound))
	st.heap["$alloc"] = na
}

func (vc *VC) modularCall(fr *frame, callee *ssa.Function, key string, c *Contract, args []Val, sig *types.Signature, rt types.Type, hint string, st *state, call ssa.Value) Val {
	c.Used = true
	env := &SpecEnv{vc: vc, vars: map[string]Val{}, st: st, old: st.heap.clone(), contract: c, reach: st.reach, pkg: vc.eng.specPkg(callee)}
	names := c.Params
	if callee != nil && len(callee.Params) > 0 {
		names = nil
		for _, p := range callee.Params {
			names = append(names, p.Name())
		}
	}
	for i, n := range names {
		if i < len(args) && n != "_" {
			env.vars[n] = args[i]
		}
	}
	env.oldVars = env.vars
	pos := ""
	if call != nil {
		pos = vc.pos(fr, call.Pos())
	}
	// ghost variables of the callee are universally quantified: its preconditions are proved for
	// fresh (arbitrary) values of them
	for _, g := range c.Ghosts {
		t, err := env.resolveType(g.Type)
		if err != nil {
			continue
		}
		if cg, ok := vc.ghosts[g.Name]; ok && cg.Typ != nil && vc.S.sortOf(cg.Typ) == vc.S.sortOf(t) && fr != nil && fr.depth == 0 {
			env.vars[g.Name] = cg
			continue
		}
		n := vc.freshConst("callghost:"+g.Name, vc.S.sortOf(t))
		vc.assumeInv(st, n, t)
		env.vars[g.Name] = vc.mkVal(n, t)
	}
	for _, r := range c.Requires {
		if r.Kind == "assume" {
			continue
		}
		t, err := env.evalBool(r.Expr)
		if err != nil {
			vc.errorf("%s: requires of %s: %v", vc.fnKey, key, err)
			continue
		}
		vc.oblige("call-pre", fmt.Sprintf("precondition of %s: %s", key, r.Name()), r.Props, pos, st.reach, t)
	}
	// a callee that never returns (`ensures false`: it ends the process): unless the verified function
	// says it `aborts`, the call must be unreachable
	if fr != nil && vc.contract != nil && !vc.contract.Aborts {
		for _, en := range c.Ensures {
			if strings.TrimSpace(en.Text) == "false" {
				vc.oblige("abort", fmt.Sprintf("call of %s, which ends the process, is unreachable (the contract has no `aborts`)", key), nil, pos, st.reach, "false")
				break
			}
		}
	}
	// results
	// (an arbitrary result is created after the callee's allocations have been accounted for: it may
	// point to a cell the callee allocated)
	var res Val
	isUF := c.Extern || c.Trusted || c.Functional || c.Deterministic || c.Pure && callee != nil && callee.Blocks == nil
	if isUF {
		res = vc.ufApply(st, key, args, rt, hint)
	}
	// frame: cells that existed before the call change only at the declared locations. Cells the callee
	// allocates lie at references >= the allocation counter at the call; nothing was known about
	// the heap arrays there, so they need no havoc (the postconditions constrain them directly).
	pre := &state{reach: st.reach, heap: st.heap.clone()}
	if !c.Pure && (len(c.Modifies) > 0 || c.ModAll || !c.Extern) {
		chains := map[string]string{}
		if c.ModAll {
			for _, k := range vc.allHeapKeys(st.heap) {
				if srt := vc.heapSort[k]; srt != "" && k != "$alloc" && !strings.HasPrefix(k, "IT:") {
					chains[k] = vc.freshConst("any:"+k, srt)
				}
			}
			vc.havocFrame(st, chains, vc.allHeapKeys(st.heap))
		} else {
			penv := *env
			penv.st = pre
			for _, m := range c.Modifies {
				if err := penv.havocLoc(m, chains); err != nil {
					vc.errorf("%s: modifies of %s: %v", vc.fnKey, key, err)
				}
			}
			var ks []string
			for k := range chains {
				ks = append(ks, k)
			}
			sort.Strings(ks)
			for _, k := range ks {
				st.heap[k] = vc.define("post:"+k, vc.heapSort[k], chains[k])
			}
			bound := vc.allocTerm(st.heap)
			na := vc.freshConst("alloc", "Int")
			vc.assume(st.reach, fmt.Sprintf("(>= %s %s)", na, bound))
			st.heap["$alloc"] = na
		}
	}
	if !isUF {
		res = vc.freshResult(st, rt, hint)
	}
	// ensures
	post := &SpecEnv{vc: vc, vars: map[string]Val{}, st: st, old: pre.heap, contract: c, reach: st.reach, pkg: env.pkg}
	for k, v := range env.vars {
		post.vars[k] = v
	}
	post.oldVars = env.vars
	bindResults(post.vars, res, rt, sig)
	// the callee's ghost variables are universally quantified: its postconditions are instantiated
	// at every combination of the caller's ghost terms of the same sort
	// extra instantiation terms requested by the caller's contract (`instantiate <int expr>`),
	// evaluated in the caller's state at this call
	extra := map[string][]string{}
	if fr != nil && fr.depth == 0 && vc.contract != nil && len(c.Ghosts) > 0 {
		for _, x := range vc.contract.Instantiate {
			// in the state before the call and in the state after it (a postcondition may have to be
			// used at a term that depends on what the call produced)
			seen := map[string]bool{}
			for _, at := range []*state{pre, st} {
				cenv := vc.specEnv(fr, at, nil)
				if v, err := cenv.eval(x); err == nil && v.T != "" && v.Typ != nil && !seen[v.T] {
					seen[v.T] = true
					srt := vc.S.sortOf(v.Typ)
					extra[srt] = append(extra[srt], vc.define("inst", srt, v.T))
				}
			}
		}
	}
	for _, inst := range vc.ghostInstances(c, post, extra) {
		// ghosts are rigid: the same instance inside old(...)
		ov := map[string]Val{}
		for k, v := range env.vars {
			ov[k] = v
		}
		for k, v := range inst {
			post.vars[k] = v
			ov[k] = v
		}
		post.oldVars = ov
		for _, e := range c.Ensures {
			t, err := post.evalBool(e.Expr)
			if err != nil {
				if len(c.Ghosts) > 0 && strings.Contains(err.Error(), "unknown identifier") {
					continue // mentions a ghost for which the caller has no term
				}
				vc.errorf("%s: ensures of %s: %v", vc.fnKey, key, err)
				continue
			}
			vc.assume(st.reach, t)
		}
	}
	if c.Extern || c.Trusted {
		vc.assumed["assumed contract: "+key] = true
	}
	if c.Deterministic {
		vc.assumed["assumed deterministic (result depends on the arguments only): "+key] = true
	}
	return res
}

func bindResults(vars map[string]Val, res Val, rt types.Type, sig *types.Signature) {
	if tup, ok := rt.(*types.Tuple); ok {
		for i := 0; i < tup.Len() && i < len(res.Tuple); i++ {
			vars[fmt.Sprintf("result%d", i)] = res.Tuple[i]
			if sig != nil && sig.Results().At(i).Name() != "" {
				vars[sig.Results().At(i).Name()] = res.Tuple[i]
			}
		}
		if len(res.Tuple) > 0 {
			vars["result"] = res.Tuple[0]
		}
		return
	}
	vars["result"] = res
	vars["result0"] = res
}

// ghostInstances enumerates bindings of the callee's ghost variables to caller ghost terms.
func (vc *VC) ghostInstances(c *Contract, env *SpecEnv, extra map[string][]string) []map[string]Val {
	insts := []map[string]Val{{}}
	for _, g := range c.Ghosts {
		t, err := env.resolveType(g.Type)
		if err != nil {
			continue
		}
		srt := vc.S.sortOf(t)
		var cands []Val
		for _, term := range vc.ghostByKey[srt] {
			cands = append(cands, vc.mkVal(term, t))
		}
		for _, term := range extra[srt] {
			cands = append(cands, vc.mkVal(term, t))
		}
		if len(cands) == 0 {
			continue
		}
		var next []map[string]Val
		for _, m := range insts {
			for _, cv := range cands {
				n := map[string]Val{}
				for k, v := range m {
					n[k] = v
				}
				n[g.Name] = cv
				next = append(next, n)
			}
		}
		if len(next) > 64 {
			next = next[:64]
		}
		insts = next
	}
	return insts
}
