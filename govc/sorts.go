package main

// Mapping of Go types to SMT sorts, zero values and type invariants.

import (
	"fmt"
	"go/types"
	"math/big"
	"strings"
)

const (
	sortIface = "Iface"
	sortSlice = "Slice"
	sortBytes = "Bytes"
	sortDiags = "Diags"
)

// Sorts accumulates sort and function declarations for one query context.
type Sorts struct {
	decls    []string
	seen     map[string]bool
	stSeen   map[string]string // struct type key -> sort name
	tagOf    map[string]int    // dynamic type key -> interface tag
	tagNames []string
	tagTypes map[string]types.Type
}

func newSorts() *Sorts {
	s := &Sorts{seen: map[string]bool{}, stSeen: map[string]string{}, tagOf: map[string]int{}, tagTypes: map[string]types.Type{}}
	s.decls = append(s.decls,
		"(declare-datatypes ((Iface 0)) (((mkIface (itag Int) (iid Int)))))",
		"(declare-datatypes ((Slice 0)) (((mkSlice (sarr Int) (slen Int)))))",
		"(declare-datatypes ((Bytes 0)) (((mkBytes (bnil Bool) (bstr String)))))",
		"(declare-datatypes ((Diags 0)) (((mkDiags (dset (Array Iface Bool)) (dn Int)))))",
	)
	return s
}

func (s *Sorts) declare(key, decl string) {
	if s.seen[key] {
		return
	}
	s.seen[key] = true
	s.decls = append(s.decls, decl)
}

func q(name string) string {
	name = strings.ReplaceAll(name, "|", "!")
	name = strings.ReplaceAll(name, "\\", "!")
	return "|" + name + "|"
}

func typeKey(t types.Type) string {
	return types.TypeString(t, nil)
}

func isDiagnostics(t types.Type) bool {
	n, ok := t.(*types.Named)
	if !ok {
		return false
	}
	o := n.Obj()
	return o.Name() == "Diagnostics" && o.Pkg() != nil && strings.HasSuffix(o.Pkg().Path(), "terraform-plugin-framework/diag")
}

func isByteSlice(t types.Type) bool {
	sl, ok := t.Underlying().(*types.Slice)
	if !ok {
		return false
	}
	b, ok := sl.Elem().Underlying().(*types.Basic)
	return ok && (b.Kind() == types.Uint8)
}

// sortOf returns the SMT sort used for values of Go type t.
func (s *Sorts) sortOf(t types.Type) string {
	if isDiagnostics(t) {
		return sortDiags
	}
	switch u := t.Underlying().(type) {
	case *types.Basic:
		switch {
		case u.Info()&types.IsBoolean != 0:
			return "Bool"
		case u.Info()&types.IsInteger != 0:
			return "Int"
		case u.Kind() == types.Float32:
			return "(_ FloatingPoint 8 24)"
		case u.Kind() == types.Float64, u.Kind() == types.UntypedFloat:
			return "(_ FloatingPoint 11 53)"
		case u.Info()&types.IsString != 0:
			return "String"
		case u.Kind() == types.UnsafePointer:
			return "Int"
		case u.Kind() == types.UntypedNil:
			return "Int"
		}
		return "Int"
	case *types.Pointer, *types.Map, *types.Chan, *types.Signature:
		return "Int"
	case *types.Slice:
		if isByteSlice(t) {
			return sortBytes
		}
		return sortSlice
	case *types.Interface:
		return sortIface
	case *types.Array:
		return "(Array Int " + s.sortOf(u.Elem()) + ")"
	case *types.Struct:
		return s.structSort(t, u)
	case *types.Tuple:
		return "Int" // never used as a first-class value
	}
	return "Int"
}

func (s *Sorts) structSort(t types.Type, u *types.Struct) string {
	key := typeKey(t)
	if n, ok := s.stSeen[key]; ok {
		return n
	}
	name := q("S:" + key)
	s.stSeen[key] = name
	var fs []string
	for i := 0; i < u.NumFields(); i++ {
		fs = append(fs, fmt.Sprintf("(%s %s)", s.selName(t, i), s.sortOf(u.Field(i).Type())))
	}
	decl := fmt.Sprintf("(declare-datatypes ((%s 0)) (((%s %s))))", name, s.ctorName(t), strings.Join(fs, " "))
	if len(fs) == 0 {
		decl = fmt.Sprintf("(declare-datatypes ((%s 0)) (((%s))))", name, s.ctorName(t))
	}
	s.declare("sort:"+key, decl)
	return name
}

func (s *Sorts) ctorName(t types.Type) string { return q("mk:" + typeKey(t)) }
func (s *Sorts) selName(t types.Type, i int) string {
	u := t.Underlying().(*types.Struct)
	return q(fmt.Sprintf("%s.%s#%d", typeKey(t), u.Field(i).Name(), i))
}

// mkStruct builds a struct value from field terms.
func (s *Sorts) mkStruct(t types.Type, fields []string) string {
	s.sortOf(t)
	if len(fields) == 0 {
		return s.ctorName(t)
	}
	return "(" + s.ctorName(t) + " " + strings.Join(fields, " ") + ")"
}

// proj selects field i of struct value term v.
func (s *Sorts) proj(t types.Type, v string, i int) string {
	s.sortOf(t)
	return "(" + s.selName(t, i) + " " + v + ")"
}

// update returns v with the sub-value at path replaced by nv.
func (s *Sorts) update(t types.Type, v string, path []int, nv string) string {
	if len(path) == 0 {
		return nv
	}
	u := t.Underlying().(*types.Struct)
	var fs []string
	for i := 0; i < u.NumFields(); i++ {
		p := s.proj(t, v, i)
		if i == path[0] {
			p = s.update(u.Field(i).Type(), p, path[1:], nv)
		}
		fs = append(fs, p)
	}
	return s.mkStruct(t, fs)
}

func (s *Sorts) projPath(t types.Type, v string, path []int) (string, types.Type) {
	for _, i := range path {
		u := t.Underlying().(*types.Struct)
		v = s.proj(t, v, i)
		t = u.Field(i).Type()
	}
	return v, t
}

// zero returns the zero value of t.
func (s *Sorts) zero(t types.Type) string {
	if isDiagnostics(t) {
		return "(mkDiags ((as const (Array Iface Bool)) false) 0)"
	}
	switch u := t.Underlying().(type) {
	case *types.Basic:
		switch {
		case u.Info()&types.IsBoolean != 0:
			return "false"
		case u.Info()&types.IsInteger != 0:
			return "0"
		case u.Kind() == types.Float32:
			return "(_ +zero 8 24)"
		case u.Kind() == types.Float64, u.Kind() == types.UntypedFloat:
			return "(_ +zero 11 53)"
		case u.Info()&types.IsString != 0:
			return `""`
		}
		return "0"
	case *types.Slice:
		if isByteSlice(t) {
			return `(mkBytes true "")`
		}
		return "(mkSlice 0 0)"
	case *types.Interface:
		return "(mkIface 0 0)"
	case *types.Array:
		return fmt.Sprintf("((as const %s) %s)", s.sortOf(t), s.zero(u.Elem()))
	case *types.Struct:
		var fs []string
		for i := 0; i < u.NumFields(); i++ {
			fs = append(fs, s.zero(u.Field(i).Type()))
		}
		return s.mkStruct(t, fs)
	}
	return "0"
}

func intRange(b *types.Basic) (lo, hi *big.Int, ok bool) {
	one := big.NewInt(1)
	pow := func(n uint) *big.Int { return new(big.Int).Lsh(one, n) }
	switch b.Kind() {
	case types.Int8:
		return new(big.Int).Neg(pow(7)), new(big.Int).Sub(pow(7), one), true
	case types.Int16:
		return new(big.Int).Neg(pow(15)), new(big.Int).Sub(pow(15), one), true
	case types.Int32:
		return new(big.Int).Neg(pow(31)), new(big.Int).Sub(pow(31), one), true
	case types.Int, types.Int64:
		return new(big.Int).Neg(pow(63)), new(big.Int).Sub(pow(63), one), true
	case types.Uint8:
		return big.NewInt(0), new(big.Int).Sub(pow(8), one), true
	case types.Uint16:
		return big.NewInt(0), new(big.Int).Sub(pow(16), one), true
	case types.Uint32:
		return big.NewInt(0), new(big.Int).Sub(pow(32), one), true
	case types.Uint, types.Uint64, types.Uintptr:
		return big.NewInt(0), new(big.Int).Sub(pow(64), one), true
	}
	return nil, nil, false
}

func smtInt(v *big.Int) string {
	if v.Sign() < 0 {
		return "(- " + new(big.Int).Neg(v).String() + ")"
	}
	return v.String()
}

// typeInv returns constraints every value v of type t satisfies (ranges of machine
// integers, slice header sanity, allocation bound for references).
func (s *Sorts) typeInv(v string, t types.Type, alloc string, depth int) []string {
	if depth > 3 {
		return nil
	}
	if isDiagnostics(t) {
		return []string{fmt.Sprintf("(>= (dn %s) 0)", v)}
	}
	switch u := t.Underlying().(type) {
	case *types.Basic:
		if lo, hi, ok := intRange(u); ok {
			return []string{fmt.Sprintf("(<= %s %s)", smtInt(lo), v), fmt.Sprintf("(<= %s %s)", v, smtInt(hi))}
		}
	case *types.Pointer, *types.Map:
		r := []string{fmt.Sprintf("(>= %s 0)", v)}
		if p, ok := u.(*types.Pointer); ok && isSplitTarget(p.Elem()) {
			return r // may be the address of a split field: not below the allocation counter
		}
		if alloc != "" {
			r = append(r, fmt.Sprintf("(< %s %s)", v, alloc))
		}
		return r
	case *types.Slice:
		if isByteSlice(t) {
			return []string{fmt.Sprintf("(=> (bnil %s) (= (bstr %s) \"\"))", v, v)}
		}
		r := []string{fmt.Sprintf("(>= (slen %s) 0)", v), fmt.Sprintf("(>= (sarr %s) 0)", v),
			fmt.Sprintf("(=> (= (sarr %s) 0) (= (slen %s) 0))", v, v)}
		if alloc != "" {
			r = append(r, fmt.Sprintf("(< (sarr %s) %s)", v, alloc))
		}
		return r
	case *types.Interface:
		return []string{fmt.Sprintf("(>= (itag %s) 0)", v), fmt.Sprintf("(=> (= (itag %s) 0) (= (iid %s) 0))", v, v)}
	case *types.Struct:
		var r []string
		for i := 0; i < u.NumFields(); i++ {
			r = append(r, s.typeInv(s.proj(t, v, i), u.Field(i).Type(), alloc, depth+1)...)
		}
		return r
	}
	return nil
}

// tag returns the interface tag of dynamic type t (>= 1).
func (s *Sorts) tag(t types.Type) int {
	k := typeKey(t)
	if n, ok := s.tagOf[k]; ok {
		return n
	}
	n := len(s.tagOf) + 1
	s.tagOf[k] = n
	s.tagNames = append(s.tagNames, k)
	s.tagTypes[k] = t
	return n
}

// boxFn / unboxFn: injective boxing of a concrete value into an interface id.
func (s *Sorts) boxFn(t types.Type) string {
	name := q("box:" + typeKey(t))
	s.declare("box:"+typeKey(t), fmt.Sprintf("(declare-fun %s (%s) Int)", name, s.sortOf(t)))
	return name
}
func (s *Sorts) unboxFn(t types.Type) string {
	name := q("unbox:" + typeKey(t))
	s.declare("unbox:"+typeKey(t), fmt.Sprintf("(declare-fun %s (Int) %s)", name, s.sortOf(t)))
	return name
}
