#!/bin/sh
# builds the verification tools offline from /verif sources
set -e
export GOFLAGS=-mod=mod GOPROXY=off GOSUMDB=off GOTOOLCHAIN=local CGO_ENABLED=0
cd "$(dirname "$0")"
mkdir -p bin
(cd govc && go build -o ../bin/govc .)
