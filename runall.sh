#!/bin/bash
# runs every registered check sequentially (never in parallel: solver timeouts) and prints a summary
cd /verif
tier=${1:-quick}
for p in $(python3 -c "import json;print(' '.join(c['property_id'] for c in json.load(open('MANIFEST.json'))['checks']))"); do
  out=$(./check $p --tier $tier 2>&1); rc=$?
  echo "$p exit=$rc $(echo "$out" | grep '^check ' | sed 's/^check [A-Z0-9]*: //')"
  echo "$out" | grep '^VIOLATION' | head -3 | cut -c1-220
done
