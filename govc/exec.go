package main

// Symbolic executor: go/ssa function -> quantifier-free SMT obligations.
// Forward execution over the acyclic CFG obtained by cutting back edges at loop
// headers; state is merged at join points; every obligation is an independent
// (check-sat) of  prefix-assumptions /\ reach /\ not goal.

import (
	"fmt"
	"go/constant"
	"go/token"
	"go/types"
	"math/big"
	"os"
	"sort"
	"strings"

	"golang.org/x/tools/go/ssa"
)

type Heap map[string]string

func (h Heap) clone() Heap {
	n := make(Heap, len(h))
	for k, v := range h {
		n[k] = v
	}
	return n
}

const (
	LCell = iota
	LElem
)

type Loc struct {
	Kind int
	Ref  string // cell ref, or backing array ref for LElem
	Idx  string // LElem
	Cell types.Type
	Path []int
}

type Val struct {
	T     string
	Typ   types.Type
	Loc   *Loc
	Tuple []Val
}

type Obligation struct {
	ID     int      `json:"id"`
	Func   string   `json:"func"`
	Kind   string   `json:"kind"`
	Name   string   `json:"name"`
	Props  []string `json:"props,omitempty"`
	Eff    []string `json:"eff_props,omitempty"`
	Pos    string   `json:"pos,omitempty"`
	Prefix int      `json:"-"`
	Reach  string   `json:"-"`
	Goal   string   `json:"-"`
	// ExpectFail marks vacuity canaries: the obligation must be refuted.
	ExpectFail bool `json:"expect_fail,omitempty"`
	// ReachOf >= 0 marks the reachability probe of return ReachOf-1... (0 = not a probe): refuting it is
	// not a failure by itself; the number of unreachable returns is compared with the allowance
	ReachProbe bool `json:"reach_probe,omitempty"`
	Allow      int  `json:"-"`
	retHeap    Heap
	retVals    []Val
}

type frameAx struct{ knew, chain, bound string }

type VC struct {
	eng        *Engine
	S          *Sorts
	lines      []string
	obls       []*Obligation
	nfresh     int
	fnKey      string
	contract   *Contract
	initHeap   Heap
	heapSort   map[string]string
	frames     map[string][]frameAx
	ghosts     map[string]Val
	errs       []string
	mapKeys    map[string][]string
	assumed    map[string]bool
	inlined    map[string]bool
	alloc0     string
	params     map[string]Val
	entryHeap  Heap
	ghostByKey map[string][]string // sort -> ghost terms (for lazy instantiation)
	consts     []modelConst
	pre        []string
	frameSk    map[string]string
	specInst   int
	keyConsts  []string
	nnMaps     map[string]bool
	frameLocs  []modLoc
	pure       bool
}

type modelConst struct {
	Name string
	Sort string
	Desc string
}

type frame struct {
	fn        *ssa.Function
	vals      map[ssa.Value]Val
	prefix    string
	depth     int
	vars      map[string][]varDef
	iters     map[*ssa.Range]iterInfo
	stack     []string
	errCalls  []pendingErr
	loopEntry map[*ssa.BasicBlock]Heap
	loopExit  map[*ssa.BasicBlock]Heap
	loopOrds  map[*ssa.BasicBlock]int
}

type varDef struct {
	v      ssa.Value
	isAddr bool
	block  *ssa.BasicBlock
	pos    token.Pos
	obj    *types.Var
}

type iterInfo struct {
	key     string // heap key holding the processed set
	dom     string // domain array at Range time
	val     string
	mapType *types.Map
}

type state struct {
	reach string
	heap  Heap
}

type retInfo struct {
	reach string
	heap  Heap
	vals  []Val
	pos   token.Pos
	block *ssa.BasicBlock
	errs  []pendingErr
}

// pendingErr: error result of a call made on the way to a return
type pendingErr struct {
	term, reach, what string
	block             *ssa.BasicBlock
}

func (vc *VC) errorf(format string, a ...interface{}) {
	vc.errs = append(vc.errs, fmt.Sprintf(format, a...))
}

func (vc *VC) fresh(hint string) string {
	vc.nfresh++
	return q(fmt.Sprintf("%s!%d", hint, vc.nfresh))
}

func (vc *VC) declare(name, sort string) {
	vc.lines = append(vc.lines, fmt.Sprintf("(declare-const %s %s)", name, sort))
}

func (vc *VC) assert(t string) {
	if t == "true" {
		return
	}
	vc.lines = append(vc.lines, "(assert "+t+")")
}

func (vc *VC) assume(reach, t string) {
	if t == "true" {
		return
	}
	if reach == "true" || reach == "" {
		vc.assert(t)
	} else {
		vc.assert("(=> " + reach + " " + t + ")")
	}
}

// define introduces a named constant equal to term.
func (vc *VC) define(hint, sort, term string) string {
	n := vc.fresh(hint)
	vc.declare(n, sort)
	vc.assert("(= " + n + " " + term + ")")
	return n
}

func (vc *VC) freshConst(hint, sort string) string {
	n := vc.fresh(hint)
	vc.declare(n, sort)
	return n
}

func and(ts ...string) string {
	var r []string
	for _, t := range ts {
		if t == "true" || t == "" {
			continue
		}
		if t == "false" {
			return "false"
		}
		r = append(r, t)
	}
	switch len(r) {
	case 0:
		return "true"
	case 1:
		return r[0]
	}
	return "(and " + strings.Join(r, " ") + ")"
}

func or(ts ...string) string {
	var r []string
	for _, t := range ts {
		if t == "false" || t == "" {
			continue
		}
		if t == "true" {
			return "true"
		}
		r = append(r, t)
	}
	switch len(r) {
	case 0:
		return "false"
	case 1:
		return r[0]
	}
	return "(or " + strings.Join(r, " ") + ")"
}

func not(t string) string {
	switch t {
	case "true":
		return "false"
	case "false":
		return "true"
	}
	if strings.HasPrefix(t, "(not ") && strings.HasSuffix(t, ")") && balanced(t[5:len(t)-1]) {
		return t[5 : len(t)-1]
	}
	return "(not " + t + ")"
}

func balanced(s string) bool {
	d := 0
	for i, c := range s {
		switch c {
		case '(':
			d++
		case ')':
			d--
			if d < 0 {
				return false
			}
			if d == 0 && i != len(s)-1 {
				return false
			}
		case ' ':
			if d == 0 {
				return false
			}
		}
	}
	return d == 0
}

func (vc *VC) oblige(kind, name string, props []string, pos string, reach, goal string) {
	if goal == "true" {
		return
	}
	if os.Getenv("GOVC_SPLIT") != "" && strings.HasPrefix(goal, "(and ") {
		// debugging aid: one obligation per top-level conjunct
		for i, cj := range flattenAnd(goal) {
			short := cj
			if len(short) > 160 {
				short = short[:160] + "…"
			}
			vc.oblige(kind, fmt.Sprintf("%s [conjunct %d: %s]", name, i, short), props, pos, reach, cj)
		}
		return
	}
	o := &Obligation{ID: len(vc.obls), Func: vc.fnKey, Kind: kind, Name: name, Props: props, Pos: pos,
		Prefix: len(vc.lines), Reach: reach, Goal: goal}
	vc.obls = append(vc.obls, o)
	vc.assume(reach, goal)
}

// flattenAnd splits the s-expression (and a b ...) into its conjuncts, recursively.
func flattenAnd(t string) []string {
	if !strings.HasPrefix(t, "(and ") || !strings.HasSuffix(t, ")") {
		return []string{t}
	}
	body := t[5 : len(t)-1]
	var parts []string
	depth, start, inStr, inBar := 0, 0, false, false
	for i := 0; i < len(body); i++ {
		c := body[i]
		switch {
		case inStr:
			if c == '"' {
				inStr = false
			}
		case inBar:
			if c == '|' {
				inBar = false
			}
		case c == '"':
			inStr = true
		case c == '|':
			inBar = true
		case c == '(':
			depth++
		case c == ')':
			depth--
		case c == ' ' && depth == 0:
			if i > start {
				parts = append(parts, body[start:i])
			}
			start = i + 1
		}
	}
	if start < len(body) {
		parts = append(parts, body[start:])
	}
	var out []string
	for _, p := range parts {
		out = append(out, flattenAnd(p)...)
	}
	return out
}

// ---------------------------------------------------------------- heap

func (vc *VC) heapKeySort(key string, sort string) {
	if _, ok := vc.heapSort[key]; !ok {
		vc.heapSort[key] = sort
	}
}

func (vc *VC) heapGet(h Heap, key string) string {
	if t, ok := h[key]; ok {
		return t
	}
	if t, ok := vc.initHeap[key]; ok {
		return t
	}
	srt, ok := vc.heapSort[key]
	if !ok {
		panic("heap key without sort: " + key)
	}
	n := q("pre:" + key)
	// declared in the preamble so that every obligation prefix sees it
	vc.pre = append(vc.pre, fmt.Sprintf("(declare-const %s %s)", n, srt))
	vc.initHeap[key] = n
	vc.consts = append(vc.consts, modelConst{n, srt, "initial " + key})
	return n
}

func (vc *VC) cellKey(t types.Type) string {
	k := "H:" + typeKey(t)
	vc.heapKeySort(k, "(Array Int "+vc.S.sortOf(t)+")")
	return k
}

func (vc *VC) elemKey(t types.Type) string {
	k := "SL:" + typeKey(t)
	vc.heapKeySort(k, "(Array Int (Array Int "+vc.S.sortOf(t)+"))")
	return k
}

func (vc *VC) mapKeysOf(m *types.Map) (string, string) {
	id := typeKey(m.Key()) + "=>" + typeKey(m.Elem())
	d, v := "MD:"+id, "MV:"+id
	ks := vc.S.sortOf(m.Key())
	vc.heapKeySort(d, "(Array Int (Array "+ks+" Bool))")
	vc.heapKeySort(v, "(Array Int (Array "+ks+" "+vc.S.sortOf(m.Elem())+"))")
	return d, v
}

func (vc *VC) cardFn(m *types.Map) string {
	ks := vc.S.sortOf(m.Key())
	name := q("card:" + typeKey(m.Key()))
	vc.S.declare("card:"+typeKey(m.Key()), fmt.Sprintf("(declare-fun %s ((Array %s Bool)) Int)", name, ks))
	return name
}

func (vc *VC) allocTerm(h Heap) string {
	vc.heapKeySort("$alloc", "Int")
	if t, ok := h["$alloc"]; ok {
		return t
	}
	return vc.alloc0
}

// sel reads heap key at ref and instantiates frame axioms of earlier havocs.
func (vc *VC) sel(st *state, key, ref string) string {
	arr := vc.heapGet(st.heap, key)
	vc.instFrames(key, ref)
	return "(select " + arr + " " + ref + ")"
}

// instFrames instantiates the frame axioms of earlier havocs of key at ref.
func (vc *VC) instFrames(key, ref string) {
	for _, fa := range vc.frames[key] {
		vc.assert(fmt.Sprintf("(=> (< %s %s) (= (select %s %s) (select %s %s)))", ref, fa.bound, fa.knew, ref, fa.chain, ref))
	}
}

// splitFields: struct-valued fields whose address escapes into first-class pointers. Such a field
// lives in a cell of its own at reference sub(base) (an injective function of the enclosing cell's
// reference), so that &base.Field is an ordinary pointer. Sound because every access to a field of a
// heap struct goes through FieldAddr, and the enclosing structs are never copied by value.
var splitFields = map[string]bool{"Plugin.Imports": true}

// extend returns the location of field idx inside l.
func (vc *VC) extend(l *Loc, idx int) *Loc {
	nl := *l
	nl.Path = append(append([]int{}, l.Path...), idx)
	t := vc.locType(l)
	if n, ok := t.(*types.Named); ok {
		if st, ok := n.Underlying().(*types.Struct); ok && idx < st.NumFields() {
			key := n.Obj().Name() + "." + st.Field(idx).Name()
			if splitFields[key] && l.Kind == LCell && len(l.Path) == 0 {
				fn := q("sub:" + key)
				inv := q("subinv:" + key)
				vc.S.declare("sub:"+key, fmt.Sprintf("(declare-fun %s (Int) Int)", fn))
				vc.S.declare("subinv:"+key, fmt.Sprintf("(declare-fun %s (Int) Int)", inv))
				ref := fmt.Sprintf("(%s %s)", fn, l.Ref)
				vc.assume("true", fmt.Sprintf("(and (> %s 0) (= (%s %s) %s))", ref, inv, ref, l.Ref))
				return &Loc{Kind: LCell, Ref: ref, Cell: st.Field(idx).Type()}
			}
		}
	}
	return &nl
}

func isSplitTarget(t types.Type) bool {
	n, ok := t.(*types.Named)
	if !ok {
		return false
	}
	for k := range splitFields {
		// the field type's name equals the field name for the configured pairs (Plugin.Imports Imports)
		if strings.HasSuffix(k, "."+n.Obj().Name()) {
			return true
		}
	}
	return false
}

func (vc *VC) locType(l *Loc) types.Type {
	t := l.Cell
	for _, i := range l.Path {
		t = t.Underlying().(*types.Struct).Field(i).Type()
	}
	return t
}

func (vc *VC) load(st *state, l *Loc) string {
	var cell string
	if l.Kind == LCell {
		cell = vc.sel(st, vc.cellKey(l.Cell), l.Ref)
	} else {
		cell = "(select " + vc.sel(st, vc.elemKey(l.Cell), l.Ref) + " " + l.Idx + ")"
	}
	v, _ := vc.S.projPath(l.Cell, cell, l.Path)
	return v
}

func (vc *VC) store(st *state, l *Loc, v string) {
	if l.Kind == LCell {
		key := vc.cellKey(l.Cell)
		old := vc.sel(st, key, l.Ref)
		if len(l.Path) > 0 {
			old = vc.define("cell", vc.S.sortOf(l.Cell), old)
		}
		nv := vc.S.update(l.Cell, old, l.Path, v)
		st.heap[key] = vc.define("h", vc.heapSort[key], fmt.Sprintf("(store %s %s %s)", vc.heapGet(st.heap, key), l.Ref, nv))
		return
	}
	key := vc.elemKey(l.Cell)
	inner := vc.sel(st, key, l.Ref)
	old := "(select " + inner + " " + l.Idx + ")"
	nv := vc.S.update(l.Cell, old, l.Path, v)
	st.heap[key] = vc.define("h", vc.heapSort[key], fmt.Sprintf("(store %s %s (store %s %s %s))", vc.heapGet(st.heap, key), l.Ref, inner, l.Idx, nv))
}

// mkVal wraps a first-class term of type t.
func (vc *VC) mkVal(term string, t types.Type) Val {
	v := Val{T: term, Typ: t}
	if p, ok := t.Underlying().(*types.Pointer); ok {
		v.Loc = &Loc{Kind: LCell, Ref: term, Cell: p.Elem()}
	}
	return v
}

func (vc *VC) firstClass(v Val) (string, bool) {
	if v.Loc != nil {
		if v.Loc.Kind == LCell && len(v.Loc.Path) == 0 {
			return v.Loc.Ref, true
		}
		return "", false
	}
	if v.Tuple != nil {
		return "", false
	}
	return v.T, true
}

func (vc *VC) assumeInv(st *state, term string, t types.Type) {
	for _, c := range vc.S.typeInv(term, t, vc.allocTerm(st.heap), 0) {
		vc.assume(st.reach, c)
	}
}

func (vc *VC) allocRef(st *state, hint string) string {
	cur := vc.allocTerm(st.heap)
	ref := vc.define(hint, "Int", cur)
	st.heap["$alloc"] = vc.define("alloc", "Int", "(+ "+cur+" 1)")
	return ref
}

// ---------------------------------------------------------------- constants

func smtString(s string) string {
	var b strings.Builder
	b.WriteByte('"')
	for i := 0; i < len(s); i++ {
		c := s[i]
		switch {
		case c == '"':
			b.WriteString(`""`)
		case c == '\\':
			b.WriteString(`\u{5c}`)
		case c >= 0x20 && c < 0x7f:
			b.WriteByte(c)
		default:
			fmt.Fprintf(&b, `\u{%x}`, c)
		}
	}
	b.WriteByte('"')
	return b.String()
}

func (vc *VC) constVal(c *ssa.Const) Val {
	t := c.Type()
	if c.Value == nil {
		return vc.mkVal(vc.S.zero(t), t)
	}
	switch u := t.Underlying().(type) {
	case *types.Basic:
		switch {
		case u.Info()&types.IsBoolean != 0:
			if constant.BoolVal(c.Value) {
				return Val{T: "true", Typ: t}
			}
			return Val{T: "false", Typ: t}
		case u.Info()&types.IsInteger != 0:
			bi, ok := constant.Val(constant.ToInt(c.Value)).(*big.Int)
			if !ok {
				i64, _ := constant.Int64Val(constant.ToInt(c.Value))
				bi = big.NewInt(i64)
			}
			return Val{T: smtInt(bi), Typ: t}
		case u.Info()&types.IsString != 0:
			return Val{T: smtString(constant.StringVal(c.Value)), Typ: t}
		case u.Info()&types.IsFloat != 0:
			return Val{T: vc.floatConst(c.Value, vc.S.sortOf(t)), Typ: t}
		}
	}
	vc.errorf("unsupported constant %v of type %v", c, t)
	return Val{T: vc.S.zero(t), Typ: t}
}

func (vc *VC) floatConst(v constant.Value, sort string) string {
	eb := "11 53"
	if strings.Contains(sort, "8 24") {
		eb = "8 24"
	}
	f := constant.ToFloat(v)
	if constant.Sign(f) == 0 {
		return "(_ +zero " + eb + ")"
	}
	num, _ := constant.Val(constant.Num(f)).(*big.Int)
	den, _ := constant.Val(constant.Denom(f)).(*big.Int)
	if num == nil || den == nil {
		n64, _ := constant.Int64Val(constant.Num(f))
		d64, _ := constant.Int64Val(constant.Denom(f))
		num, den = big.NewInt(n64), big.NewInt(d64)
	}
	r := fmt.Sprintf("(/ %s.0 %s.0)", new(big.Int).Abs(num).String(), den.String())
	if num.Sign() < 0 {
		r = "(- " + r + ")"
	}
	return fmt.Sprintf("((_ to_fp %s) RNE %s)", eb, r)
}

// ---------------------------------------------------------------- values

func (vc *VC) get(fr *frame, v ssa.Value) Val {
	switch x := v.(type) {
	case *ssa.Const:
		return vc.constVal(x)
	case *ssa.Global:
		ref := vc.eng.globalRef(x)
		pt := x.Type().Underlying().(*types.Pointer).Elem()
		return Val{T: ref, Typ: x.Type(), Loc: &Loc{Kind: LCell, Ref: ref, Cell: pt}}
	case *ssa.Function:
		return Val{T: vc.eng.funcRef(vc, x), Typ: x.Type()}
	case *ssa.Builtin:
		return Val{T: "0", Typ: x.Type()}
	}
	if val, ok := fr.vals[v]; ok {
		return val
	}
	vc.errorf("%s: value %s (%T) used before definition", fr.fn.Name(), v.Name(), v)
	return vc.mkVal(vc.freshConst("undef", vc.S.sortOf(v.Type())), v.Type())
}

func (vc *VC) setTerm(fr *frame, v ssa.Value, term string) {
	t := v.Type()
	n := vc.define(fr.prefix+v.Name(), vc.S.sortOf(t), term)
	fr.vals[v] = vc.mkVal(n, t)
}

// ---------------------------------------------------------------- CFG helpers

type edge struct {
	from *ssa.BasicBlock
	cond string
}

func isBackEdge(from, to *ssa.BasicBlock) bool { return to.Dominates(from) }

func topoOrder(fn *ssa.Function) []*ssa.BasicBlock {
	var order []*ssa.BasicBlock
	seen := map[*ssa.BasicBlock]bool{}
	var visit func(b *ssa.BasicBlock)
	visit = func(b *ssa.BasicBlock) {
		seen[b] = true
		for _, s := range b.Succs {
			if !seen[s] && !isBackEdge(b, s) {
				visit(s)
			}
		}
		order = append(order, b)
	}
	visit(fn.Blocks[0])
	for i, j := 0, len(order)-1; i < j; i, j = i+1, j-1 {
		order[i], order[j] = order[j], order[i]
	}
	return order
}

// loopBlocks returns the natural loop of header h.
func loopBlocks(h *ssa.BasicBlock) map[*ssa.BasicBlock]bool {
	body := map[*ssa.BasicBlock]bool{h: true}
	var stack []*ssa.BasicBlock
	for _, p := range h.Preds {
		if isBackEdge(p, h) && !body[p] {
			body[p] = true
			stack = append(stack, p)
		}
	}
	for len(stack) > 0 {
		b := stack[len(stack)-1]
		stack = stack[:len(stack)-1]
		for _, p := range b.Preds {
			if !body[p] {
				body[p] = true
				stack = append(stack, p)
			}
		}
	}
	return body
}

func (vc *VC) pos(fr *frame, p token.Pos) string {
	if !p.IsValid() {
		return ""
	}
	pp := vc.eng.fset.Position(p)
	return fmt.Sprintf("%s:%d", pp.Filename, pp.Line)
}

// ---------------------------------------------------------------- run

func (vc *VC) newFrame(fn *ssa.Function, prefix string, depth int, stack []string) *frame {
	fr := &frame{fn: fn, vals: map[ssa.Value]Val{}, prefix: prefix, depth: depth, vars: map[string][]varDef{},
		iters: map[*ssa.Range]iterInfo{}, stack: stack, loopEntry: map[*ssa.BasicBlock]Heap{}, loopExit: map[*ssa.BasicBlock]Heap{}, loopOrds: map[*ssa.BasicBlock]int{}}
	for _, b := range fn.Blocks {
		for _, ins := range b.Instrs {
			if d, ok := ins.(*ssa.DebugRef); ok && d.Object() != nil {
				if ov, isVar := d.Object().(*types.Var); isVar {
					n := d.Object().Name()
					fr.vars[n] = append(fr.vars[n], varDef{d.X, d.IsAddr, b, d.Pos(), ov})
				}
			}
		}
	}
	return fr
}

// run executes fn symbolically from the given entry state.
func (vc *VC) run(fr *frame, entry state) []retInfo {
	fn := fr.fn
	if len(fn.Blocks) == 0 {
		vc.errorf("function %s has no body", fn.Name())
		return nil
	}
	order := topoOrder(fn)
	endState := map[*ssa.BasicBlock]*state{}
	edgeCond := map[[2]int]string{} // (from index, succ ordinal) -> condition
	var rets []retInfo

	loopOrd := map[*ssa.BasicBlock]int{}
	{
		var hs []*ssa.BasicBlock
		for _, b := range fn.Blocks {
			for _, p := range b.Preds {
				if isBackEdge(p, b) {
					hs = append(hs, b)
					break
				}
			}
		}
		sort.Slice(hs, func(i, j int) bool { return firstPos(hs[i]) < firstPos(hs[j]) })
		for i, h := range hs {
			loopOrd[h] = i
		}
	}

	condTo := func(p, b *ssa.BasicBlock) string {
		var cs []string
		for i, s := range p.Succs {
			if s == b {
				cs = append(cs, edgeCond[[2]int{p.Index, i}])
			}
		}
		return or(cs...)
	}

	for _, b := range order {
		var st *state
		_, isLoop := loopOrd[b]
		var inc []*ssa.BasicBlock
		var incIdx []int
		for i, p := range b.Preds {
			if !isBackEdge(p, b) {
				if endState[p] == nil {
					continue // unreachable predecessor
				}
				inc = append(inc, p)
				incIdx = append(incIdx, i)
			}
		}
		switch {
		case b == fn.Blocks[0]:
			st = &state{reach: entry.reach, heap: entry.heap.clone()}
		case len(inc) == 0:
			continue // unreachable
		case len(inc) == 1 && !isLoop:
			p := inc[0]
			st = &state{reach: vc.define(fr.prefix+"reach", "Bool", condTo(p, b)), heap: endState[p].heap.clone()}
			for _, ins := range b.Instrs {
				phi, ok := ins.(*ssa.Phi)
				if !ok {
					break
				}
				fr.vals[phi] = vc.get(fr, phi.Edges[incIdx[0]])
			}
		default:
			// merge
			var conds []string
			for _, p := range inc {
				conds = append(conds, condTo(p, b))
			}
			st = &state{reach: vc.define(fr.prefix+"reach", "Bool", or(conds...)), heap: Heap{}}
			keys := map[string]bool{}
			for _, p := range inc {
				for k := range endState[p].heap {
					keys[k] = true
				}
			}
			var ks []string
			for k := range keys {
				ks = append(ks, k)
			}
			sort.Strings(ks)
			for _, k := range ks {
				first := vc.heapGetOr(endState[inc[0]].heap, k)
				same := true
				for _, p := range inc[1:] {
					if vc.heapGetOr(endState[p].heap, k) != first {
						same = false
					}
				}
				if same {
					st.heap[k] = first
					continue
				}
				n := vc.freshConst("hm", vc.heapSort[k])
				for i, p := range inc {
					vc.assert(fmt.Sprintf("(=> %s (= %s %s))", conds[i], n, vc.heapGetOr(endState[p].heap, k)))
				}
				st.heap[k] = n
			}
			for _, ins := range b.Instrs {
				phi, ok := ins.(*ssa.Phi)
				if !ok {
					break
				}
				vc.mergePhi(fr, phi, incIdx, conds)
			}
		}

		if isLoop {
			vc.loopHeader(fr, b, st, loopOrd[b])
		}

		// instructions
		for _, ins := range b.Instrs {
			if _, ok := ins.(*ssa.Phi); ok {
				continue
			}
			switch x := ins.(type) {
			case *ssa.If:
				c := vc.get(fr, x.Cond).T
				edgeCond[[2]int{b.Index, 0}] = and(st.reach, c)
				edgeCond[[2]int{b.Index, 1}] = and(st.reach, not(c))
			case *ssa.Jump:
				edgeCond[[2]int{b.Index, 0}] = st.reach
			case *ssa.Return:
				var vals []Val
				for _, r := range x.Results {
					vals = append(vals, vc.get(fr, r))
				}
				rets = append(rets, retInfo{st.reach, st.heap.clone(), vals, x.Pos(), b, append([]pendingErr{}, fr.errCalls...)})
			case *ssa.Panic:
				vc.oblige("panic", "explicit panic unreachable", nil, vc.pos(fr, x.Pos()), st.reach, "false")
			default:
				vc.execInstr(fr, b, ins, st)
			}
		}
		endState[b] = st
		if isLoop {
			fr.loopExit[b] = st.heap.clone()
			fr.loopOrds[b] = loopOrd[b]
			// `exhaustive k`: loop k is left only through its header (the range is used up) or by a
			// return; an edge from the body to code behind the loop (break, goto) is refused
			if fr.depth == 0 && vc.contract != nil && vc.contract.Exhaustive[loopOrd[b]] {
				body := loopBlocks(b)
				for blk := range body {
					if blk == b {
						continue
					}
					for _, sc := range blk.Succs {
						if !body[sc] {
							if n := len(sc.Instrs); n > 0 {
								if _, isRet := sc.Instrs[n-1].(*ssa.Return); isRet {
									continue
								}
								if _, isPanic := sc.Instrs[n-1].(*ssa.Panic); isPanic {
									continue
								}
							}
							vc.oblige("exhaustive", fmt.Sprintf("loop %d is left only through its header or a return (edge from block %d to block %d leaves the body)", loopOrd[b], blk.Index, sc.Index), nil, vc.pos(fr, firstPos(sc)), "true", "false")
						}
					}
				}
			}
		}

		// back edges out of b: check loop invariants
		for i, s := range b.Succs {
			if isBackEdge(b, s) {
				vc.backEdge(fr, b, s, edgeCond[[2]int{b.Index, i}], st, loopOrd[s])
			}
		}
	}
	return rets
}

func firstPos(b *ssa.BasicBlock) token.Pos {
	best := token.Pos(1 << 40)
	for _, ins := range b.Instrs {
		if p := ins.Pos(); p.IsValid() && p < best {
			best = p
		}
	}
	// loop headers of range loops often carry no position; fall back to successors
	if best == token.Pos(1<<40) {
		for _, s := range b.Succs {
			for _, ins := range s.Instrs {
				if p := ins.Pos(); p.IsValid() && p < best {
					best = p
				}
			}
		}
	}
	return best
}

func (vc *VC) heapGetOr(h Heap, k string) string {
	if k == "$alloc" {
		return vc.allocTerm(h)
	}
	if strings.HasPrefix(k, "IT:") {
		if t, ok := h[k]; ok {
			return t
		}
		return fmt.Sprintf("((as const %s) false)", vc.heapSort[k])
	}
	return vc.heapGet(h, k)
}

func (vc *VC) mergePhi(fr *frame, phi *ssa.Phi, incIdx []int, conds []string) {
	t := phi.Type()
	var vals []Val
	for _, i := range incIdx {
		vals = append(vals, vc.get(fr, phi.Edges[i]))
	}
	if _, isPtr := t.Underlying().(*types.Pointer); isPtr {
		// all incoming must agree on cell type and path
		l0 := vals[0].Loc
		ok := l0 != nil
		for _, v := range vals {
			if v.Loc == nil || l0 == nil || v.Loc.Kind != l0.Kind || typeKey(v.Loc.Cell) != typeKey(l0.Cell) || fmt.Sprint(v.Loc.Path) != fmt.Sprint(l0.Path) || (v.Loc.Kind == LElem) {
				ok = false
			}
		}
		if !ok {
			// fall back: first-class refs only
			allFC := true
			for _, v := range vals {
				if _, fc := vc.firstClass(v); !fc {
					allFC = false
				}
			}
			if !allFC {
				vc.errorf("%s: phi %s merges incompatible pointers", fr.fn.Name(), phi.Name())
				fr.vals[phi] = vc.mkVal(vc.freshConst("undef", "Int"), t)
				return
			}
			n := vc.freshConst(fr.prefix+phi.Name(), "Int")
			for i, v := range vals {
				r, _ := vc.firstClass(v)
				vc.assert(fmt.Sprintf("(=> %s (= %s %s))", conds[i], n, r))
			}
			fr.vals[phi] = vc.mkVal(n, t)
			return
		}
		n := vc.freshConst(fr.prefix+phi.Name(), "Int")
		for i, v := range vals {
			vc.assert(fmt.Sprintf("(=> %s (= %s %s))", conds[i], n, v.Loc.Ref))
		}
		fr.vals[phi] = Val{T: n, Typ: t, Loc: &Loc{Kind: l0.Kind, Ref: n, Cell: l0.Cell, Path: l0.Path}}
		if len(l0.Path) > 0 {
			fr.vals[phi] = Val{Typ: t, Loc: &Loc{Kind: l0.Kind, Ref: n, Cell: l0.Cell, Path: l0.Path}}
		}
		return
	}
	n := vc.freshConst(fr.prefix+phi.Name(), vc.S.sortOf(t))
	for i, v := range vals {
		vc.assert(fmt.Sprintf("(=> %s (= %s %s))", conds[i], n, v.T))
	}
	fr.vals[phi] = vc.mkVal(n, t)
}
